#!/bin/sh
# Build the harness (debug + release) offline from /repo's working tree and parse every spec.
set -e
cd "$(dirname "$0")"
export CARGO_NET_OFFLINE=true
mkdir -p out/tlc out/traces out/replay evidence
[ -f harness/Cargo.lock ] || cp /repo/Cargo.lock harness/Cargo.lock
(cd harness && cargo build --offline --quiet && cargo build --offline --quiet --release)
for f in spec/*/*.tla; do
  case "$f" in *out_*) continue;; esac
  (cd "$(dirname "$f")" && tla-sany "$(basename "$f")" >/dev/null 2>&1) || { echo "SANY failed: $f"; exit 1; }
done
echo setup ok
