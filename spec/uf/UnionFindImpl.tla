--------------------------- MODULE UnionFindImpl ---------------------------
(* C19.  UnionFind as coded in src/unionfind.rs: parent/rank vectors, union by
   rank (ties: y's root goes below x's root, x's rank grows), find_mut with
   path halving, try_find read-only walk, into_labeling.  Deterministic.
   TLC checks the forest/rank invariants and that it refines UnionFindAbs.   *)
EXTENDS Naturals, FiniteSets, Sequences, TLC, Json

CONSTANTS MaxN, IxMax

VARIABLES parent,    \* parent[e], e \in 0..n-1   (n = number of elements)
          rank,      \* rank[e]
          links, ret,
          hist       \* history of calls (hidden by VIEW; printed for the cover)

ivars == <<parent, rank, links, ret, hist>>
N     == Len(parent)                        \* parent is a 1-based sequence: parent[e+1]
Par(p, e) == p[e + 1]

RECURSIVE RootIn(_, _)
RootIn(p, e) == IF Par(p, e) = e THEN e ELSE RootIn(p, Par(p, e))
Root(e)   == RootIn(parent, e)
RootMap   == [e \in 0 .. (N - 1) |-> Root(e)]

RECURSIVE DepthIn(_, _)
DepthIn(p, e) == IF Par(p, e) = e THEN 0 ELSE 1 + DepthIn(p, Par(p, e))

(* find_mut_recursive: path halving, returns <<root, parent'>> *)
RECURSIVE Halve(_, _)
Halve(p, x) ==
    LET par == Par(p, x) IN
    IF par = x THEN <<x, p>>
    ELSE LET gp == Par(p, par) IN Halve([p EXCEPT ![x + 1] = gp], par)

Abs == INSTANCE UnionFindAbs WITH n <- N, rep <- RootMap

InRange(x) == x < N
U == UNCHANGED <<parent, rank, links>>
H(op) == hist' = Append(hist, op)

Init == /\ \E m \in 0 .. MaxN : parent = [i \in 1 .. m |-> i - 1] /\ rank = [i \in 1 .. m |-> 0]
        /\ links = {} /\ ret = <<"s", "ok">> /\ hist = <<[op |-> "reset", n |-> Len(parent)]>>

NewSet == /\ N <= IxMax
          /\ parent' = Append(parent, N) /\ rank' = Append(rank, 0)
          /\ links' = links /\ ret' = <<"i", N>> /\ H([op |-> "new_set"])

(* try_union as coded *)
TryUnionBody(x, y, unwrap) ==
    IF x = y THEN /\ ret' = (IF unwrap THEN <<"b", FALSE>> ELSE <<"ok_b", FALSE>>) /\ U
    ELSE IF ~InRange(x) THEN /\ ret' = (IF unwrap THEN <<"panic">> ELSE <<"err_i", x>>) /\ U
    ELSE LET hx == Halve(parent, x) IN
         IF ~InRange(y)
         THEN \* x's path was already compressed when y is found to be bad
              /\ ret' = (IF unwrap THEN <<"panic">> ELSE <<"err_i", y>>)
              /\ parent' = hx[2] /\ rank' = rank /\ links' = links
         ELSE LET hy == Halve(hx[2], y)
                  xr == hx[1]   yr == hy[1]   p2 == hy[2]
                  lk == links \cup {{x, y}} IN
              IF xr = yr
              THEN /\ ret' = (IF unwrap THEN <<"b", FALSE>> ELSE <<"ok_b", FALSE>>)
                   /\ parent' = p2 /\ rank' = rank /\ links' = lk
              ELSE /\ ret' = (IF unwrap THEN <<"b", TRUE>> ELSE <<"ok_b", TRUE>>)
                   /\ links' = lk
                   /\ IF rank[xr + 1] < rank[yr + 1]
                      THEN parent' = [p2 EXCEPT ![xr + 1] = yr] /\ rank' = rank
                      ELSE IF rank[xr + 1] > rank[yr + 1]
                      THEN parent' = [p2 EXCEPT ![yr + 1] = xr] /\ rank' = rank
                      ELSE /\ parent' = [p2 EXCEPT ![yr + 1] = xr]
                           /\ rank' = [rank EXCEPT ![xr + 1] = @ + 1]

TryUnion(x, y) == TryUnionBody(x, y, FALSE) /\ H([op |-> "try_union", x |-> x, y |-> y])
Union(x, y)    == TryUnionBody(x, y, TRUE)  /\ H([op |-> "union", x |-> x, y |-> y])

Find(x)    == /\ ret' = (IF InRange(x) THEN <<"i", Root(x)>> ELSE <<"panic">>) /\ U
              /\ H([op |-> "find", x |-> x])
TryFind(x) == /\ ret' = (IF InRange(x) THEN <<"i", Root(x)>> ELSE <<"none">>) /\ U
              /\ H([op |-> "try_find", x |-> x])
FindMut(x) == /\ IF InRange(x)
                 THEN LET h == Halve(parent, x) IN ret' = <<"i", h[1]>> /\ parent' = h[2]
                 ELSE ret' = <<"panic">> /\ parent' = parent
              /\ rank' = rank /\ links' = links /\ H([op |-> "find_mut", x |-> x])
TryFindMut(x) == /\ IF InRange(x)
                    THEN LET h == Halve(parent, x) IN ret' = <<"i", h[1]>> /\ parent' = h[2]
                    ELSE ret' = <<"none">> /\ parent' = parent
                 /\ rank' = rank /\ links' = links /\ H([op |-> "try_find_mut", x |-> x])
Equiv(x, y) == /\ ret' = IF InRange(x) /\ InRange(y) THEN <<"b", Root(x) = Root(y)>> ELSE <<"panic">>
               /\ U /\ H([op |-> "equiv", x |-> x, y |-> y])
TryEquiv(x, y) == /\ ret' = IF ~InRange(x) THEN <<"err_i", x>> ELSE IF ~InRange(y) THEN <<"err_i", y>>
                            ELSE <<"ok_b", Root(x) = Root(y)>>
                  /\ U /\ H([op |-> "try_equiv", x |-> x, y |-> y])
Labeling == /\ ret' = <<"li", [i \in 1 .. N |-> Root(i - 1)]>> /\ U /\ H([op |-> "labeling"])

Args == 0 .. MaxN

Next == \/ (N < MaxN /\ NewSet)
        \/ \E x, y \in Args : TryUnion(x, y) \/ Union(x, y) \/ Equiv(x, y) \/ TryEquiv(x, y)
        \/ \E x \in Args : Find(x) \/ TryFind(x) \/ FindMut(x) \/ TryFindMut(x)
        \/ Labeling

Spec == Init /\ [][Next]_ivars

---------------------------------------------------------------------------
(* invariants of the implementation-shaped state *)
TypeOK == /\ parent \in Seq(0 .. MaxN) /\ rank \in Seq(Nat) /\ Len(rank) = N
          /\ \A i \in 1 .. N : parent[i] < N          \* guards get_unchecked
Forest == \A e \in 0 .. (N - 1) : DepthIn(parent, e) <= N   \* evaluation terminates = no cycle
RankOK == \A e \in 0 .. (N - 1) : Par(parent, e) # e => rank[Par(parent, e) + 1] > rank[e + 1]
\* a root of rank r has at least 2^r elements below it
ClassSize(r) == Cardinality({e \in 0 .. (N - 1) : Root(e) = r})
RankLog == \A e \in 0 .. (N - 1) : Par(parent, e) = e => 2 ^ rank[e + 1] <= ClassSize(e)

AbsSpec == Abs!Init /\ [][Abs!Next \/ UNCHANGED Abs!vars]_<<parent, rank, links, ret>>
AbsInv  == Abs!EquivIsConnectivity /\ Abs!RepOK

(* cover generation: hide hist, print the history of every explored transition *)
View == <<parent, rank, ret>>
ViewMC == <<parent, rank, links, ret>>
Emit == PrintT(<<"COVER", ToJson(hist')>>)
============================================================================
