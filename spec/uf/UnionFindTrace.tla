--------------------------- MODULE UnionFindTrace ---------------------------
(* C19 trace validation: a recorded history of calls on the real UnionFind
   (one ndjson line per public call: op, arguments, ret, len, rep) is accepted
   iff it is a behaviour of UnionFindAbs.  Every line is bound to exactly one
   abstract action; the logged `rep` resolves the only nondeterminism.        *)
EXTENDS UnionFindAbs, Json, IOUtils, TLC

Rec == ndJsonDeserialize(IOEnv.TRACE)

VARIABLE l                       \* next line of Rec to explain
tvars == <<n, rep, links, ret, l>>

E == Rec[l]
IsEv(o) == l <= Len(Rec) /\ E.op = o /\ l' = l + 1

(* what every line must satisfy after its action: logged result and cheap state *)
Bind == ret' = E.ret /\ n' = E.len

TraceInit == l = 1 /\ n = 0 /\ rep = Ident(0) /\ links = {} /\ ret = <<"s", "ok">>

TrReset   == IsEv("reset")   /\ New(E.n) /\ Bind
TrNewSet  == IsEv("new_set") /\ NewSet /\ Bind
TrUnionBind == IF InRange(E.x) THEN E.rep = <<"i", rep'[E.x]>> ELSE E.rep = <<"none">>
TrTryUnion == IsEv("try_union") /\ TryUnion(E.x, E.y) /\ Bind /\ TrUnionBind
TrUnion    == IsEv("union")     /\ Union(E.x, E.y)    /\ Bind /\ TrUnionBind
TrFind       == IsEv("find")         /\ Find(E.x)    /\ Bind
TrFindMut    == IsEv("find_mut")     /\ Find(E.x)    /\ Bind
TrTryFind    == IsEv("try_find")     /\ TryFind(E.x) /\ Bind
TrTryFindMut == IsEv("try_find_mut") /\ TryFind(E.x) /\ Bind
TrEquiv      == IsEv("equiv")        /\ Equiv(E.x, E.y)    /\ Bind
TrTryEquiv   == IsEv("try_equiv")    /\ TryEquiv(E.x, E.y) /\ Bind
TrLabeling   == IsEv("labeling")     /\ Labeling /\ Bind
TrLen        == IsEv("len")          /\ LenCall  /\ Bind
TrIsEmpty    == IsEv("is_empty")     /\ IsEmpty  /\ Bind
TrClone      == IsEv("clone")        /\ Unch /\ ret' = <<"s", "ok">> /\ Bind
\* clone_from into a destination with its own history: the result is a copy of the source, nothing else
TrCloneFrom  == IsEv("clone_from")   /\ Unch /\ ret' = <<"s", "ok">> /\ Bind
TrCapacity   == IsEv("capacity")     /\ NoEffect /\ Bind

TraceNext == \/ TrReset \/ TrNewSet \/ TrTryUnion \/ TrUnion \/ TrFind \/ TrFindMut
             \/ TrTryFind \/ TrTryFindMut \/ TrEquiv \/ TrTryEquiv \/ TrLabeling
             \/ TrLen \/ TrIsEmpty \/ TrClone \/ TrCloneFrom \/ TrCapacity

TraceSpec == TraceInit /\ [][TraceNext]_tvars

(* the abstract invariants are evaluated in every state of every accepted trace *)
TraceInv == RepOK

Matched == TLCGet("stats").diameter - 1
TraceAccepted ==
    IF Matched = Len(Rec) THEN TRUE
    ELSE /\ PrintT(<<"REJECTED", Matched + 1, ToJson(Rec[Matched + 1])>>)
         /\ FALSE
============================================================================
