SPECIFICATION Spec
CONSTANTS MaxN = 4
          IxMax = 255
INVARIANTS TypeOK Forest RankOK RankLog AbsInv
PROPERTIES AbsSpec
VIEW ViewMC
CHECK_DEADLOCK FALSE
