SPECIFICATION Spec
CONSTANTS MaxN = 4
          IxMax = 255
INVARIANTS TypeOK RepOK EquivIsConnectivity
PROPERTIES Monotone RepStable
CHECK_DEADLOCK FALSE
