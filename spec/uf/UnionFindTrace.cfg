SPECIFICATION TraceSpec
CONSTANTS MaxN = 0
          IxMax = 1000000000
INVARIANT TraceInv
POSTCONDITION TraceAccepted
CHECK_DEADLOCK FALSE
