SPECIFICATION Spec
CONSTANTS MaxN = 4
          IxMax = 255
VIEW View
ACTION_CONSTRAINT Emit
CHECK_DEADLOCK FALSE
