------------------------------- MODULE DotLex -------------------------------
(* A tokenizer and statement parser for the DOT subset petgraph's Dot prints, over character codes:
     graph    := [ ("digraph" | "graph") "{" ] stmt* [ "}" ]
     stmt     := ID "[" attr* "]"  |  ID ("->" | "--") ID "[" attr* "]"  |  ID "=" (ID | STRING)
     attr     := ID "=" (ID | STRING)
   STRING is a double-quoted string in which a backslash escapes the next character (so \" does not
   end it).  "No weight can terminate its label early or inject statements" means: the text tokenizes
   and parses, and the statements are exactly one per node and one per edge.                       *)
EXTENDS Integers, Sequences, FiniteSets, TLC

QUOTE == 34   BSL == 92   LBR == 91   RBR == 93   LCB == 123   RCB == 125   EQ == 61   MINUS == 45   GT == 62
IsSpace(c) == c \in {32, 9, 10, 13}
IsIdChar(c) == (c >= 48 /\ c <= 57) \/ (c >= 65 /\ c <= 90) \/ (c >= 97 /\ c <= 122) \/ c = 95

\* Tokens: <<"id", codes>>, <<"str", raw codes between the quotes>>, <<"[">>, <<"]">>, <<"{">>, <<"}">>, <<"=">>, <<"->">>, <<"--">>, <<"bad">>
RECURSIVE ScanId(_, _)
ScanId(t, k) == IF k <= Len(t) /\ IsIdChar(t[k]) THEN ScanId(t, k + 1) ELSE k      \* first index after the id
RECURSIVE ScanStr(_, _)
\* k is inside the string; returns the index of the closing quote, or 0 if the string never ends
ScanStr(t, k) == IF k > Len(t) THEN 0
                 ELSE IF t[k] = BSL THEN (IF k + 1 > Len(t) THEN 0 ELSE ScanStr(t, k + 2))
                 ELSE IF t[k] = QUOTE THEN k ELSE ScanStr(t, k + 1)

RECURSIVE Tokens(_, _)
Tokens(t, k) ==
    IF k > Len(t) THEN <<>>
    ELSE LET c == t[k] IN
         IF IsSpace(c) THEN Tokens(t, k + 1)
         ELSE IF IsIdChar(c) THEN LET e == ScanId(t, k) IN <<<<"id", SubSeq(t, k, e - 1)>>>> \o Tokens(t, e)
         ELSE IF c = QUOTE THEN LET e == ScanStr(t, k + 1) IN
                                IF e = 0 THEN <<<<"bad">>>> ELSE <<<<"str", SubSeq(t, k + 1, e - 1)>>>> \o Tokens(t, e + 1)
         ELSE IF c = LBR THEN <<<<"[">>>> \o Tokens(t, k + 1)
         ELSE IF c = RBR THEN <<<<"]">>>> \o Tokens(t, k + 1)
         ELSE IF c = LCB THEN <<<<"{">>>> \o Tokens(t, k + 1)
         ELSE IF c = RCB THEN <<<<"}">>>> \o Tokens(t, k + 1)
         ELSE IF c = EQ THEN <<<<"=">>>> \o Tokens(t, k + 1)
         ELSE IF c = MINUS /\ k < Len(t) /\ t[k + 1] = GT THEN <<<<"->">>>> \o Tokens(t, k + 2)
         ELSE IF c = MINUS /\ k < Len(t) /\ t[k + 1] = MINUS THEN <<<<"--">>>> \o Tokens(t, k + 2)
         ELSE <<<<"bad">>>>

Tag(tk, k) == IF k <= Len(tk) THEN tk[k][1] ELSE "eof"
IsVal(tk, k) == Tag(tk, k) \in {"id", "str"}

\* attribute list starting after "[": returns <<index after "]", label (<<"none">> or <<"str", codes>>), ok>>
RECURSIVE Attrs(_, _, _)
Attrs(tk, k, lab) ==
    IF Tag(tk, k) = "]" THEN <<k + 1, lab, TRUE>>
    ELSE IF Tag(tk, k) = "id" /\ Tag(tk, k + 1) = "=" /\ IsVal(tk, k + 2)
         THEN Attrs(tk, k + 3, IF tk[k][2] = <<108, 97, 98, 101, 108>> THEN tk[k + 2] ELSE lab)      \* "label"
         ELSE <<k, lab, FALSE>>

\* statements: <<"node", id codes, label>> | <<"edge", id, op, id, label>> | <<"attr", id, value>>
RECURSIVE Stmts(_, _)
Stmts(tk, k) ==       \* returns <<list, index where parsing stopped>>
    IF Tag(tk, k) # "id" THEN <<<<>>, k>>
    ELSE IF Tag(tk, k + 1) = "[" THEN
            LET a == Attrs(tk, k + 2, <<"none">>) IN
            IF ~a[3] THEN <<<<>>, k>>
            ELSE LET r == Stmts(tk, a[1]) IN <<<<<<"node", tk[k][2], a[2]>>>> \o r[1], r[2]>>
    ELSE IF Tag(tk, k + 1) \in {"->", "--"} /\ Tag(tk, k + 2) = "id" /\ Tag(tk, k + 3) = "[" THEN
            LET a == Attrs(tk, k + 4, <<"none">>) IN
            IF ~a[3] THEN <<<<>>, k>>
            ELSE LET r == Stmts(tk, a[1]) IN <<<<<<"edge", tk[k][2], tk[k + 1][1], tk[k + 2][2], a[2]>>>> \o r[1], r[2]>>
    ELSE IF Tag(tk, k + 1) = "=" /\ IsVal(tk, k + 2) THEN
            LET r == Stmts(tk, k + 3) IN <<<<<<"attr", tk[k][2], tk[k + 2]>>>> \o r[1], r[2]>>
    ELSE <<<<>>, k>>

\* whole document: <<ok, header ("digraph" | "graph" | "none"), statements>>
Parse(t, contentOnly) ==
    LET tk == TLCEval(Tokens(t, 1)) IN
    IF \E k \in DOMAIN tk : tk[k][1] = "bad" THEN <<FALSE, "bad token", <<>>>>
    ELSE IF contentOnly THEN LET r == Stmts(tk, 1) IN <<r[2] = Len(tk) + 1, "none", r[1]>>
    ELSE IF Tag(tk, 1) = "id" /\ Tag(tk, 2) = "{"
         THEN LET r == Stmts(tk, 3) IN
              <<Tag(tk, r[2]) = "}" /\ r[2] = Len(tk), tk[1][2], r[1]>>
         ELSE <<FALSE, "no header", <<>>>>

\* decimal number of an id token (digits only), -1 otherwise
RECURSIVE NumOf(_)
NumOf(s) == IF s = <<>> THEN 0
            ELSE IF s[Len(s)] < 48 \/ s[Len(s)] > 57 THEN -100000
            ELSE 10 * NumOf(SubSeq(s, 1, Len(s) - 1)) + (s[Len(s)] - 48)

\* undo the escaping inside a quoted string: \" -> ", \\ -> \, \l -> newline, other \x -> \x
RECURSIVE Unescape(_)
Unescape(s) == IF s = <<>> THEN <<>>
               ELSE IF s[1] = BSL /\ Len(s) >= 2
                    THEN (IF s[2] = QUOTE THEN <<QUOTE>> ELSE IF s[2] = BSL THEN <<BSL>> ELSE IF s[2] = 108 THEN <<10>> ELSE <<BSL, s[2]>>)
                         \o Unescape(SubSeq(s, 3, Len(s)))
                    ELSE <<s[1]>> \o Unescape(Tail(s))
IsPrefix(p, s) == Len(p) <= Len(s) /\ SubSeq(s, 1, Len(p)) = p
=============================================================================
