----------------------------- MODULE OracleC18 -----------------------------
(* C18: graph6 strings against the format definition (Graph6.tla) and Dot output against a DOT
   tokenizer / statement parser (DotLex.tla). *)
EXTENDS Graph6, DotLex, SequencesExt, Json, IOUtils
Recs == ndJsonDeserialize(IOEnv.RECORDS)
VARIABLES i, verdict
vars == <<i, verdict>>
Has(r, f) == f \in DOMAIN r
Ok(o) == o[1] = "ok"
SeqRange(s) == {s[k] : k \in DOMAIN s}

AdjAbs(r, a, b) == \E j \in DOMAIN r.E : {r.E[j][1], r.E[j][2]} = {a, b}
\* graph6 of the encoding's adjacency in its node-iteration order
G6OK(r, v) == LET ord == r.ord[2] IN
              /\ Len(ord) = r.n /\ SeqRange(ord) = 0 .. (r.n - 1)
              /\ v = Encode(r.n, LAMBDA x, y : AdjAbs(r, ord[x + 1], ord[y + 1]))
\* the harness string (natural order) is the definition's encoding; every decoder rebuilds that graph
HsOK(r, v) == v = Encode(r.n, LAMBDA x, y : AdjAbs(r, x, y))
DecOK(r, d) == \A t \in DOMAIN d :
    /\ d[t].nodes = [k \in 1 .. r.n |-> k - 1]
    /\ {{d[t].edges[k][1], d[t].edges[k][2]} : k \in DOMAIN d[t].edges} = {{r.E[j][1], r.E[j][2]} : j \in DOMAIN r.E}
    /\ Len(d[t].edges) = Len(r.E)

\* Dot: the text parses; one node statement per node (its index), one edge statement per edge (right
\* connector, endpoints), labels present as configured and containing the (unescaped) weight text
Str(s) == [k \in 1 .. Len(s) |-> s[k]]
DotOK(r, text) ==
    LET cfg == SeqRange(r.cfg)
        p == Parse(text, "GraphContentOnly" \in cfg)
        st == p[3]
        nodes == SelectSeq(st, LAMBDA x : x[1] = "node")
        edges == SelectSeq(st, LAMBDA x : x[1] = "edge")
        op == IF r.is_directed THEN "->" ELSE "--"
        hdr == IF r.is_directed THEN <<100, 105, 103, 114, 97, 112, 104>> ELSE <<103, 114, 97, 112, 104>>
    IN
    /\ p[1]
    /\ ("GraphContentOnly" \notin cfg => p[2] = hdr)
    /\ Len(nodes) = Len(r.nidx) /\ Len(edges) = Len(r.eidx) /\ Len(st) = Len(nodes) + Len(edges)
    /\ \A k \in DOMAIN nodes :
          /\ NumOf(nodes[k][2]) = r.nidx[k]
          /\ IF "NodeNoLabel" \in cfg THEN nodes[k][3] = <<"none">>
             ELSE /\ nodes[k][3][1] = "str"
                  /\ IF "NodeIndexLabel" \in cfg THEN NumOf(nodes[k][3][2]) = r.nidx[k]
                     ELSE IsPrefix(r.nlab[k], Unescape(nodes[k][3][2]))
    /\ \A k \in DOMAIN edges :
          /\ NumOf(edges[k][2]) = r.eidx[k][1] /\ NumOf(edges[k][4]) = r.eidx[k][2] /\ edges[k][3] = op
          /\ IF "EdgeNoLabel" \in cfg THEN edges[k][5] = <<"none">>
             ELSE /\ edges[k][5][1] = "str"
                  /\ IF "EdgeIndexLabel" \in cfg THEN NumOf(edges[k][5][2]) = k - 1
                     ELSE IsPrefix(r.elab[k], Unescape(edges[k][5][2]))

Bad(r) ==
    LET chk(f, P(_)) == IF Has(r, f) /\ ~(Ok(r[f]) /\ P(r[f][2])) THEN {f} ELSE {}
    IN
    IF r.kind = "g6" THEN
        chk("g6", LAMBDA v : G6OK(r, v))
        \cup chk("hs", LAMBDA v : HsOK(r, v))
        \cup chk("dec", LAMBDA v : DecOK(r, v))
    ELSE chk("text", LAMBDA v : DotOK(r, v))

\* the header function is right for every order up to the format's limit used here
ASSUME \A n \in (0 .. 300) \cup {4095, 4096, 4097, 258047} : HeaderRoundTrip(n)

Init == i \in 1 .. Len(Recs) /\ verdict = "pending"
Next == /\ verdict = "pending"
        /\ LET b == Bad(Recs[i]) IN
           /\ verdict' = IF b = {} THEN "ok" ELSE "bad"
           /\ (b # {} => PrintT(<<"REJECT", i, b>>))
        /\ i' = i
Spec == Init /\ [][Next]_vars
=============================================================================
