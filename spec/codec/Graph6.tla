------------------------------- MODULE Graph6 -------------------------------
(* The graph6 format by its published definition (B. McKay, formats.txt), as a function from
   (n, adjacency) to a sequence of byte codes.  An implementation independent of petgraph's.
     N(n)  = n+63                                   if 0 <= n <= 62
           = 126, then three bytes holding the 18-bit big-endian n, each +63   if 63 <= n <= 258047
     R(x)  = the upper triangle in the order (0,1),(0,2),(1,2),(0,3),(1,3),(2,3),...,(n-2,n-1),
             padded with zeros to a multiple of 6, cut into 6-bit big-endian groups, each +63. *)
EXTENDS Integers, Sequences, TLC

NBytes(n) == IF n <= 62 THEN <<n + 63>>
             ELSE <<126, ((n \div 4096) % 64) + 63, ((n \div 64) % 64) + 63, (n % 64) + 63>>

\* the k-th (1-based) pair of the upper triangle in column order: column j (1..n-1), row i (0..j-1)
\* bit list as a sequence of 0/1; adj(i, j) for 0 <= i < j < n
RECURSIVE ColBits(_, _, _)
ColBits(adj(_, _), j, i) == IF i = j THEN <<>> ELSE <<IF adj(i, j) THEN 1 ELSE 0>> \o ColBits(adj, j, i + 1)
RECURSIVE TriBits(_, _, _)
TriBits(adj(_, _), n, j) == IF j >= n THEN <<>> ELSE ColBits(adj, j, 0) \o TriBits(adj, n, j + 1)

Pad6(b) == LET r == Len(b) % 6 IN IF r = 0 THEN b ELSE b \o [k \in 1 .. (6 - r) |-> 0]
Group(b, g) == 32 * b[6 * g + 1] + 16 * b[6 * g + 2] + 8 * b[6 * g + 3] + 4 * b[6 * g + 4] + 2 * b[6 * g + 5] + b[6 * g + 6]
RBytes(b) == LET p == TLCEval(Pad6(b)) IN [g \in 1 .. (Len(p) \div 6) |-> Group(p, g - 1) + 63]

Encode(n, adj(_, _)) == NBytes(n) \o RBytes(TLCEval(TriBits(adj, n, 1)))

(* header arithmetic holds for every order the format admits (evaluated by TLC as an ASSUME-like check) *)
HeaderRoundTrip(n) == LET h == NBytes(n) IN
    IF n <= 62 THEN h[1] - 63 = n
    ELSE h[1] = 126 /\ (h[2] - 63) * 4096 + (h[3] - 63) * 64 + (h[4] - 63) = n /\ \A k \in 2 .. 4 : h[k] \in 63 .. 126
=============================================================================
