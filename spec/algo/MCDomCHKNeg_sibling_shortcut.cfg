SPECIFICATION Spec
CONSTANTS N = 4
  Loops = FALSE
  Mutant = "sibling_shortcut"
INVARIANT Inv
CHECK_DEADLOCK FALSE
