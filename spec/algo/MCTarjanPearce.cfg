SPECIFICATION FairSpec
CONSTANTS N = 3
  Loops = TRUE
  Mutant = "none"
INVARIANT Inv
PROPERTY Terminates
CHECK_DEADLOCK FALSE
