----------------------------- MODULE OracleC13 -----------------------------
(* C13: VF2 isomorphism functions against the definition: enumerate ALL injective maps.
   Record: g0 = (n, E, nw0), g1 = (n1, E1, nw1), both simple (loops allowed), same edge type.
   Edge weights and node weights are in {0,1}; the predicates used are equality.           *)
EXTENDS GraphTheory, Json, IOUtils, TLC
Recs == ndJsonDeserialize(IOEnv.RECORDS)
VARIABLES i, verdict
vars == <<i, verdict>>
Has(r, f) == f \in DOMAIN r
Ok(o) == o[1] = "ok"

\* adjacency a -> b (either orientation when undirected); weight of that edge
EdgeIx(g, a, b) == {j \in EIdx(g) : (Src(g, j) = a /\ Tgt(g, j) = b) \/ (~g.dir /\ Src(g, j) = b /\ Tgt(g, j) = a)}
Adj(g, a, b) == EdgeIx(g, a, b) # {}
EW(g, a, b) == Wt(g, CHOOSE j \in EdgeIx(g, a, b) : TRUE)

Injections(A, B) == {f \in [A -> B] : \A x, y \in A : x # y => f[x] # f[y]}

\* f maps g0 onto a node-induced subgraph of g1 (adjacency and non-adjacency preserved)
Induced(g0, g1, f) == \A a, b \in Nodes(g0) : Adj(g0, a, b) <=> Adj(g1, f[a], f[b])
Semantic(g0, g1, w0, w1, f) ==
    /\ \A a \in Nodes(g0) : w0[a + 1] = w1[f[a] + 1]
    /\ \A a, b \in Nodes(g0) : Adj(g0, a, b) => EW(g0, a, b) = EW(g1, f[a], f[b])

SubMaps(g0, g1) == {f \in Injections(Nodes(g0), Nodes(g1)) : Induced(g0, g1, f)}
SubMapsM(g0, g1, w0, w1) == {f \in SubMaps(g0, g1) : Semantic(g0, g1, w0, w1, f)}

\* a yielded vector as a function
AsFn(g0, v) == [a \in Nodes(g0) |-> v[a + 1]]
IterOK(g0, g1, o, want) ==
    IF g0.n > g1.n \/ Len(g0.E) > Len(g1.E) THEN o = <<"none">>
    ELSE /\ o[1] = "some"
         /\ \A j \in DOMAIN o[2] : Len(o[2][j]) = g0.n /\ SeqRange(o[2][j]) \subseteq Nodes(g1)
         /\ {AsFn(g0, o[2][j]) : j \in DOMAIN o[2]} = want
         /\ Len(o[2]) = Cardinality(want)                       \* each mapping once

Bad(r) ==
    LET g0 == [n |-> r.n, dir |-> r.dir, E |-> r.E]
        g1 == [n |-> r.n1, dir |-> r.dir, E |-> r.E1]
        same == g0.n = g1.n /\ Len(g0.E) = Len(g1.E)
        S == SubMaps(g0, g1)
        SM == SubMapsM(g0, g1, r.nw0, r.nw1)
        chk(f, P(_)) == IF Has(r, f) /\ ~(Ok(r[f]) /\ P(r[f][2])) THEN {f} ELSE {}
    IN
    chk("iso", LAMBDA v : v = (same /\ S # {}))
    \cup chk("isom", LAMBDA v : v = (same /\ SM # {}))
    \cup chk("sub", LAMBDA v : v = (S # {}))
    \cup chk("subm", LAMBDA v : v = (SM # {}))
    \cup (IF Has(r, "iter") /\ ~(Ok(r.iter) /\ IterOK(g0, g1, r.iter[2], S)) THEN {"iter"} ELSE {})
    \cup (IF Has(r, "iterm") /\ ~(Ok(r.iterm) /\ IterOK(g0, g1, r.iterm[2], SM)) THEN {"iterm"} ELSE {})

Init == i \in 1 .. Len(Recs) /\ verdict = "pending"
Next == /\ verdict = "pending"
        /\ LET b == Bad(Recs[i]) IN
           /\ verdict' = IF b = {} THEN "ok" ELSE "bad"
           /\ (b # {} => PrintT(<<"REJECT", i, b>>))
        /\ i' = i
Spec == Init /\ [][Next]_vars
=============================================================================
