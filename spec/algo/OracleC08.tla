----------------------------- MODULE OracleC08 -----------------------------
(* C08: Dfs, Bfs, DfsPostOrder, Topo and depth_first_search against graph theory.
   The walkers are nondeterministic in the neighbour order, so the oracle states which
   emission sequences / event sequences are LEGAL, not one expected sequence.
   Fields ending in _rev were produced through Reversed(&g): same check on the reversed graph. *)
EXTENDS Paths, Json, IOUtils
Recs == ndJsonDeserialize(IOEnv.RECORDS)
VARIABLES i, verdict
vars == <<i, verdict>>
Has(r, f) == f \in DOMAIN r
Ok(o) == o[1] = "ok"

NoDup(s) == Len(s) = Cardinality(SeqRange(s))
Pos(s, v) == CHOOSE k \in DOMAIN s : s[k] = v
RevG(g) == [n |-> g.n, dir |-> g.dir, E |-> [j \in DOMAIN g.E |-> <<g.E[j][2], g.E[j][1], g.E[j][3]>>]]
Unit(g) == [n |-> g.n, dir |-> g.dir, E |-> [j \in DOMAIN g.E |-> <<g.E[j][1], g.E[j][2], 1>>]]

\* Dfs: exactly the reachable nodes, each once; move_to continues without forgetting; reset forgets
DfsOK(g, c) ==
    /\ NoDup(c.seq) /\ SeqRange(c.seq) = ReachFrom(g, c.s) /\ c.none_again
    /\ NoDup(c.seq2) /\ SeqRange(c.seq2) = ReachFrom(g, c.t) \ SeqRange(c.seq)
    /\ NoDup(c.seq3) /\ SeqRange(c.seq3) = ReachFrom(g, c.t)
    /\ NoDup(c.seq4) /\ SeqRange(c.seq4) = ReachFrom(g, c.s)       \* foreign map, then reset
    /\ NoDup(c.seq5) /\ SeqRange(c.seq5) = ReachFrom(g, c.s)       \* through Walker::iter (WalkerIter)
\* DfsPostOrder: a node only after each successor that cannot reach it back
PostOK(g, seq, s, already) ==
    /\ NoDup(seq) /\ SeqRange(seq) = ReachFrom(g, s) \ already
    /\ \A v \in SeqRange(seq) : \A w \in Succ(g, v) :
          (w \notin already /\ ~Reaches(g, w, v)) => Pos(seq, w) < Pos(seq, v)
DpoOK(g, c) == /\ PostOK(g, c.seq, c.s, {}) /\ c.none_again
               /\ PostOK(g, c.seq2, c.t, SeqRange(c.seq))
               /\ PostOK(g, c.seq3, c.t, {})
               /\ PostOK(g, c.seq4, c.s, {})
               /\ PostOK(g, c.seq5, c.s, {})
\* move_to in the middle of a traversal: what was emitted stays discovered, the pending stack is dropped; the rest is
\* exactly what is reachable from the new start without passing through an emitted node (nothing if t was emitted)
RECURSIVE ReachAvoidSet(_, _, _)
ReachAvoidSet(g, X, avoid) == LET T == X \cup {w \in UNION {Succ(g, u) : u \in X} : w \notin avoid} IN
                               IF T = X THEN X ELSE ReachAvoidSet(g, T, avoid)
DfsMidOK(g, c) ==
    LET done == SeqRange(c.pre) IN
    /\ NoDup(c.pre) /\ done \subseteq ReachFrom(g, c.s)
    /\ NoDup(c.post)
    /\ SeqRange(c.post) = (IF c.t \in done THEN {} ELSE ReachAvoidSet(g, {c.t}, done))
    \* reset in the middle: nothing pending, nothing remembered
    /\ c.pending = 0 /\ c.rrest = <<>>
    /\ NoDup(c.rseed) /\ SeqRange(c.rseed) = ReachFrom(g, c.t)
    /\ PostOK(g, c.pseed, c.t, {})
\* Bfs: reachable nodes each once, in non-decreasing hop distance
BfsOK(g, c) ==
    LET d == Dist(Unit(g), c.s) IN
    /\ NoDup(c.seq) /\ SeqRange(c.seq) = ReachFrom(g, c.s) /\ c.none_again
    /\ \A k \in 1 .. (Len(c.seq) - 1) : d[c.seq[k]] <= d[c.seq[k + 1]]
    /\ NoDup(c.seq5) /\ SeqRange(c.seq5) = ReachFrom(g, c.s)
    /\ \A k \in 1 .. (Len(c.seq5) - 1) : d[c.seq5[k]] <= d[c.seq5[k + 1]]
\* Topo: exactly the nodes that are neither on nor downstream of a cycle, each after all its predecessors
TopoOK(g, t) ==
    LET oncycle == {v \in Nodes(g) : v \in ReachPlus(g, v)}
        bad == UNION {ReachFrom(g, v) : v \in oncycle}
        want == Nodes(g) \ bad
        ok(seq) == /\ NoDup(seq) /\ SeqRange(seq) = want
                   /\ \A j \in EIdx(g) : (Src(g, j) \in want /\ Tgt(g, j) \in want) => Pos(seq, Src(g, j)) < Pos(seq, Tgt(g, j))
    IN ok(t.seq) /\ t.none_again /\ ok(t.seq2)

\* Topo::with_initials(init): starts from the listed nodes that have no incoming edge (duplicates and nodes with
\* incoming edges are ignored); a further node is emitted exactly when all its predecessors have been emitted
Preds(g, v) == {Src(g, j) : j \in {k \in EIdx(g) : Tgt(g, k) = v}}
RECURSIVE TopoClosure(_, _)
TopoClosure(g, S) == LET T == S \cup {v \in Nodes(g) : Preds(g, v) # {} /\ Preds(g, v) \subseteq S} IN
                     IF T = S THEN S ELSE TopoClosure(g, T)
TopoInitOK(g, t) ==
    LET want == TopoClosure(g, {v \in SeqRange(t.init) : Preds(g, v) = {}}) IN
    /\ NoDup(t.seq) /\ SeqRange(t.seq) = want /\ t.none_again
    /\ \A j \in EIdx(g) : (Src(g, j) \in want /\ Tgt(g, j) \in want) => Pos(t.seq, Src(g, j)) < Pos(t.seq, Tgt(g, j))

(* depth_first_search: replay the recorded event list against the search as a state machine.
   Event = <<kind, a, b, control>>: D(n, time), T(u, v), B(u, v), X(u, v), F(n, time);
   control = C (continue) / P (prune) / B (break).                                       *)
NbrBag(g, u) ==      \* successors of u with multiplicity (what g.neighbors(u) yields)
    LET outs == {j \in EIdx(g) : Src(g, j) = u}
        ins == IF g.dir THEN {} ELSE {j \in EIdx(g) : Tgt(g, j) = u /\ Src(g, j) # u}
        tg(j) == IF Src(g, j) = u THEN Tgt(g, j) ELSE Src(g, j)
        vals == {tg(j) : j \in outs \cup ins}
    IN [v \in vals |-> Cardinality({j \in outs \cup ins : tg(j) = v})]
BagOfSeq(s) == [x \in SeqRange(s) |-> Cardinality({k \in DOMAIN s : s[k] = x})]

RECURSIVE Replay(_, _, _, _)
\* st = [disc, fin, stack, t, done (node -> seq of reported targets), pruned (set), starts (remaining), expect (-1 or node)]
Replay(g, evs, k, st) ==
    IF k > Len(evs) THEN <<TRUE, st>>
    ELSE
    LET e == evs[k]   kind == e[1]   c == e[4]
        top == IF st.stack = <<>> THEN -1 ELSE st.stack[Len(st.stack)]
        \* the next start to be discovered: first remaining start that is not yet discovered
        rest == SelectSeq(st.starts, LAMBDA x : x \notin st.disc)
    IN
    IF kind = "D" THEN
        LET n == e[2] IN
        IF ~( n \notin st.disc /\ e[3] = st.t
              /\ (IF st.expect # -1 THEN n = st.expect
                  ELSE st.stack = <<>> /\ rest # <<>> /\ n = rest[1]) )
        THEN <<FALSE, st>>
        ELSE Replay(g, evs, k + 1, [st EXCEPT !.disc = @ \cup {n}, !.stack = Append(@, n), !.t = @ + 1,
                                            !.pruned = IF c = "P" THEN @ \cup {n} ELSE @, !.expect = -1,
                                            !.done = [x \in DOMAIN @ \cup {n} |-> IF x = n THEN <<>> ELSE @[x]]])
    ELSE IF kind \in {"T", "B", "X"} THEN
        LET u == e[2]   v == e[3] IN
        IF ~( st.expect = -1 /\ u = top /\ u \notin st.pruned /\ v \in DOMAIN NbrBag(g, u)
              /\ (kind = "T" => v \notin st.disc)
              /\ (kind = "B" => v \in st.disc /\ v \notin st.fin)
              /\ (kind = "X" => v \in st.fin) )
        THEN <<FALSE, st>>
        ELSE Replay(g, evs, k + 1, [st EXCEPT !.done = [@ EXCEPT ![u] = Append(@, v)],
                                            !.expect = IF kind = "T" /\ c = "C" THEN v ELSE -1])
    ELSE \* Finish
        LET n == e[2] IN
        IF ~( st.expect = -1 /\ n = top /\ e[3] = st.t
              /\ (n \in st.pruned \/ BagOfSeq(st.done[n]) = NbrBag(g, n)) )
        THEN <<FALSE, st>>
        ELSE Replay(g, evs, k + 1, [st EXCEPT !.fin = @ \cup {n}, !.stack = SubSeq(@, 1, Len(@) - 1), !.t = @ + 1])

DfsvOK(g, c) ==
    LET init == [disc |-> {}, fin |-> {}, stack |-> <<>>, t |-> 0, done |-> [x \in {} |-> <<>>], pruned |-> {},
                 starts |-> c.starts, expect |-> -1]
        n == Len(c.evs)
        \* a Break or a Prune-on-Finish ends the run at that event
        stopsAt == {k \in 1 .. n : c.evs[k][4] = "B" \/ (c.evs[k][1] = "F" /\ c.evs[k][4] = "P")}
        r == Replay(g, c.evs, 1, init)
    IN
    /\ r[1]
    /\ \A k \in stopsAt : k = n                                   \* nothing is reported after a stop
    /\ IF n > 0 /\ c.evs[n][4] = "B" THEN c.res = <<"break", n - 1>>
       ELSE IF n > 0 /\ c.evs[n][1] = "F" /\ c.evs[n][4] = "P" THEN c.res = <<"panic">>     \* documented panic
       ELSE /\ c.res = <<"done">>
            /\ r[2].stack = <<>> /\ r[2].expect = -1
            /\ SeqRange(c.starts) \subseteq r[2].disc               \* every start was searched
            /\ r[2].disc = r[2].fin

Bad(r) ==
    LET g == [n |-> r.n, dir |-> r.dir, E |-> r.E]
        h == RevG(g)
        chk(f, x, P(_, _)) == IF Has(r, f) /\ ~(Ok(r[f]) /\ P(x, r[f][2])) THEN {f} ELSE {}
    IN
    chk("dfs", g, LAMBDA x, v : \A j \in DOMAIN v : DfsOK(x, v[j]))
    \cup chk("dfs_rev", h, LAMBDA x, v : \A j \in DOMAIN v : DfsOK(x, v[j]))
    \cup chk("dpo", g, LAMBDA x, v : \A j \in DOMAIN v : DpoOK(x, v[j]))
    \cup chk("dpo_rev", h, LAMBDA x, v : \A j \in DOMAIN v : DpoOK(x, v[j]))
    \cup chk("bfs", g, LAMBDA x, v : \A j \in DOMAIN v : BfsOK(x, v[j]))
    \cup chk("bfs_rev", h, LAMBDA x, v : \A j \in DOMAIN v : BfsOK(x, v[j]))
    \cup chk("dfsmid", g, LAMBDA x, v : \A j \in DOMAIN v : DfsMidOK(x, v[j]))
    \cup chk("dfsmid_rev", h, LAMBDA x, v : \A j \in DOMAIN v : DfsMidOK(x, v[j]))
    \cup chk("topo", g, LAMBDA x, v : TopoOK(x, v))
    \cup chk("topo_rev", h, LAMBDA x, v : TopoOK(x, v))
    \cup chk("topoi", g, LAMBDA x, v : \A j \in DOMAIN v : TopoInitOK(x, v[j]))
    \cup chk("topoi_rev", h, LAMBDA x, v : \A j \in DOMAIN v : TopoInitOK(x, v[j]))
    \cup chk("dfsv", g, LAMBDA x, v : \A j \in DOMAIN v : DfsvOK(x, v[j]))
    \cup chk("dfsv_rev", h, LAMBDA x, v : \A j \in DOMAIN v : DfsvOK(x, v[j]))
    \cup chk("dfsvr", g, LAMBDA x, v : \A j \in DOMAIN v : DfsvOK(x, v[j]))          \* visitor returning Result<Control, E>
    \cup chk("dfsvr_rev", h, LAMBDA x, v : \A j \in DOMAIN v : DfsvOK(x, v[j]))

Init == i \in 1 .. Len(Recs) /\ verdict = "pending"
Next == /\ verdict = "pending"
        /\ LET b == Bad(Recs[i]) IN
           /\ verdict' = IF b = {} THEN "ok" ELSE "bad"
           /\ (b # {} => PrintT(<<"REJECT", i, b>>))
        /\ i' = i
Spec == Init /\ [][Next]_vars
=============================================================================
