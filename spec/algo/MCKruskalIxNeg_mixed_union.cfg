SPECIFICATION Spec
CONSTANTS B = 4
  MaxW = 2
  MaxEdges = 4
  Mutant = "mixed_union"
INVARIANT Final
CHECK_DEADLOCK FALSE
