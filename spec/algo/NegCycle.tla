----------------------------- MODULE NegCycle -----------------------------
(* Implementation-shaped model of `bellman_ford_initialize_relax`, `bellman_ford` (the negative-cycle verdict) and
   `find_negative_cycle` (src/algo/bellman_ford.rs) - including the repair made for this work (commit 0a08617: the
   edge that can still be relaxed is recorded as the predecessor of its target before the predecessor chain is
   walked).  The code is deterministic once the graph and the order in which each node lists its out-edges are
   fixed, so both are chosen in Init and the whole run is one step; TLC then checks every weighted digraph of the
   bound under every per-node edge order.

   Checked against definitions that do not look at the algorithm (all simple cycles are enumerated):
     - bellman_ford errs  <=>  a negative cycle is reachable from the source;
     - find_negative_cycle returns Some  <=>  the same;
     - a returned sequence is a closed walk along existing edges with negative total cost.                     *)
EXTENDS Integers, Sequences, FiniteSets, TLC, SequencesExt

CONSTANTS N,          \* nodes 0..N-1, source 0
          WNeg, WPos, \* edge weights: -WNeg .. WPos
          MaxEdges,
          Mutant      \* "none" | "no_record" (the code before the repair: the relaxable edge is not recorded)

VARIABLES wt,         \* [pairs -> weight]: the edges (a simple digraph, self-loops allowed)
          ord,        \* a permutation of the edges; edges(i) lists the out-edges of i in the order they appear in it
          res, pc
vars == <<wt, ord, res, pc>>
Nodes == 0 .. (N - 1)
W == (0 - WNeg) .. WPos
INF == 1000
Perms(S) == {s \in [1 .. Cardinality(S) -> S] : \A i, j \in DOMAIN s : i # j => s[i] # s[j]}

Init == /\ \E P \in {X \in SUBSET (Nodes \X Nodes) : Cardinality(X) <= MaxEdges} : wt \in [P -> W]
        /\ ord \in Perms(DOMAIN wt)
        /\ res = <<>> /\ pc = "start"

\* the edge list in iteration order: for i in node_identifiers() { for edge in edges(i) { .. } }
RECURSIVE EdgeSeqFrom(_)
EdgeSeqFrom(i) == IF i >= N THEN <<>> ELSE SelectSeq(ord, LAMBDA e : e[1] = i) \o EdgeSeqFrom(i + 1)
EdgeSeq == EdgeSeqFrom(0)

\* one relaxation pass over EdgeSeq: <<dist, pred, did_update>>
RECURSIVE Pass(_, _, _, _)
Pass(es, dist, pred, upd) ==
    IF es = <<>> THEN <<dist, pred, upd>>
    ELSE LET i == Head(es)[1]   j == Head(es)[2]   w == wt[Head(es)] IN
         IF dist[i] # INF /\ dist[i] + w < dist[j]
         THEN Pass(Tail(es), [dist EXCEPT ![j] = dist[i] + w], [pred EXCEPT ![j] = i], TRUE)
         ELSE Pass(Tail(es), dist, pred, upd)
\* for _ in 1..node_count { pass; if !did_update break }
RECURSIVE Relax(_, _, _)
Relax(k, dist, pred) ==
    IF k = 0 THEN <<dist, pred>>
    ELSE LET r == Pass(EdgeSeq, dist, pred, FALSE) IN IF r[3] THEN Relax(k - 1, r[1], r[2]) ELSE <<r[1], r[2]>>
Relaxed == Relax(N - 1, [v \in Nodes |-> IF v = 0 THEN 0 ELSE INF], [v \in Nodes |-> -1])

\* the first edge (in iteration order) that can still be relaxed, or <<>>
StillRelaxable(dist) == SelectSeq(EdgeSeq, LAMBDA e : dist[e[1]] # INF /\ dist[e[1]] + wt[e] < dist[e[2]])

\* the walk back along the predecessor chain, as coded; `fuel` only guards the model against a chain without repeat
RECURSIVE Walk(_, _, _, _, _, _)
Walk(pred, start, node, path, visited, fuel) ==
    LET anc == IF pred[node] # -1 THEN pred[node] ELSE node IN
    IF fuel = 0 THEN <<-1>>
    ELSE IF anc = start THEN Append(path, anc)
    ELSE IF anc \in visited
         THEN LET pos == CHOOSE p \in DOMAIN path : path[p] = anc /\ \A q \in 1 .. (p - 1) : path[q] # anc IN
              SubSeq(path, pos, Len(path))
    ELSE Walk(pred, start, anc, Append(path, anc), visited \cup {anc}, fuel - 1)

Run ==
    /\ pc = "start" /\ pc' = "done"
    /\ LET r == Relaxed   dist == r[1]   pred == r[2]   bad == StillRelaxable(dist) IN
       res' = [bf_err |-> bad # <<>>,
               cycle |-> IF bad = <<>> THEN <<>>
                         ELSE LET i == bad[1][1]   j == bad[1][2]
                                  pred2 == IF Mutant = "no_record" THEN pred ELSE [pred EXCEPT ![j] = i] IN
                              Reverse(Walk(pred2, j, j, <<>>, {}, 2 * N + 2))]
    /\ UNCHANGED <<wt, ord>>
Done == pc = "done" /\ UNCHANGED vars
Spec == Init /\ [][Run \/ Done]_vars

\* ---------------- definitions: every simple cycle (as a sequence of distinct nodes) and its cost
Succ(v) == {e[2] : e \in {f \in DOMAIN wt : f[1] = v}}
RECURSIVE ReachSet(_)
ReachSet(X) == LET T == X \cup UNION {Succ(u) : u \in X} IN IF T = X THEN X ELSE ReachSet(T)
SimpleSeqs == UNION {Perms(S) : S \in SUBSET Nodes \ {{}}}
IsCycle(c) == \A k \in DOMAIN c : <<c[k], c[(k % Len(c)) + 1]>> \in DOMAIN wt
RECURSIVE Sum(_, _)
Sum(c, k) == IF k > Len(c) THEN 0 ELSE wt[<<c[k], c[(k % Len(c)) + 1]>>] + Sum(c, k + 1)
NegReachable == \E c \in SimpleSeqs : IsCycle(c) /\ Sum(c, 1) < 0 /\ c[1] \in ReachSet({0})

VerdictOK == pc = "done" =>
    /\ res.bf_err = NegReachable
    /\ (res.cycle # <<>>) = NegReachable
    /\ res.cycle # <<-1>>
    /\ res.cycle # <<>> => (IsCycle(res.cycle) /\ Sum(res.cycle, 1) < 0)        \* a closed walk with negative cost
=============================================================================
