SPECIFICATION Spec
CONSTANTS B = 4
  MaxW = 2
  MaxEdges = 4
  Mutant = "raw_positions"
INVARIANT Final
CHECK_DEADLOCK FALSE
