----------------------------- MODULE OracleC10 -----------------------------
(* C10: dijkstra (with and without goal), astar (goal sets, admissible heuristics),
   k_shortest_path - judged against shortest walks by definition (Paths.tla).
   Distances are recorded per abstract node, -1 = no entry in the returned map. *)
EXTENDS Paths, Json, IOUtils, TLC
Recs == ndJsonDeserialize(IOEnv.RECORDS)
VARIABLES i, verdict
vars == <<i, verdict>>
Has(r, f) == f \in DOMAIN r
Ok(o) == o[1] = "ok"

Want(d, v) == IF d[v] >= INF THEN -1 ELSE d[v]

DijkstraAllOK(g, v) == \A s \in Nodes(g) : LET d == Dist(g, s) IN \A x \in Nodes(g) : v[s + 1][x + 1] = Want(d, x)

\* through NodeFiltered (even nodes kept): the node-induced subgraph; hidden nodes are never reached
NFeven(g) == [g EXCEPT !.E = SelectSeq(g.E, LAMBDA e : e[1] % 2 = 0 /\ e[2] % 2 = 0)]
DijkstraNfOK(g, v) == LET h == NFeven(g) IN
    \A s \in Nodes(g) : IF s % 2 = 0 THEN LET d == Dist(h, s) IN \A x \in Nodes(g) : v[s + 1][x + 1] = Want(d, x)
                         ELSE v[s + 1] = <<-2>>

\* with a goal: the goal entry is exact (absent iff unreachable); every other entry present is an
\* upper bound; nodes strictly closer than the goal have an exact entry
DijkstraGoalOK(g, c) ==
    LET d == Dist(g, c.s)   got(x) == c.d[x + 1] IN
    /\ got(c.t) = Want(d, c.t)
    /\ \A x \in Nodes(g) : got(x) # -1 => got(x) >= d[x]
    /\ \A x \in Nodes(g) : d[x] < d[c.t] => got(x) = d[x]
    /\ (d[c.t] >= INF => \A x \in Nodes(g) : got(x) = Want(d, x))

\* astar: None iff no goal reachable; else a real path to a goal, cost = its cost = nearest goal
AstarOK(g, c) ==
    LET d == Dist(g, c.s)
        goals == SeqRange(c.goals)
        reach == {x \in goals : d[x] < INF}
        \* admissibility of the recorded heuristic, re-checked here: h(v) <= distance to nearest goal
        adm == \A v \in Nodes(g) : LET dv == Dist(g, v) IN \A x \in goals : dv[x] < INF => c.h[v + 1] <= dv[x]
    IN
    ~adm \/
    IF reach = {} THEN c.r = <<"none">>
    ELSE /\ c.r[1] = "some"
         /\ LET cost == c.r[2]   p == c.r[3] IN
            /\ Len(p) >= 1 /\ p[1] = c.s /\ p[Len(p)] \in goals
            /\ IsWalk(g, p)
            /\ cost = MinSet({d[x] : x \in reach})
            /\ WalkCost(g, p) = cost

(* k-th cheapest walk (walks may repeat vertices; the empty walk counts).
   cnt[l][v][c] = number of walks with exactly l edges from s to v of cost c, capped at k.
   Walks longer than k*n edges cannot be among the k cheapest. *)
CapAdd(a, b, k) == IF a + b > k THEN k ELSE a + b
RECURSIVE SumCap(_, _, _)
SumCap(f, S, k) == IF S = {} THEN 0 ELSE LET x == CHOOSE y \in S : TRUE IN CapAdd(f[x], SumCap(f, S \ {x}, k), k)

\* KthTable(g, s, K, maxw)[v][k] = cost of the k-th cheapest walk s -> v (k <= K), -1 if fewer than k walks
KthTable(g, s, K, maxw) ==
    LET L == K * g.n
        CM == L * maxw
        C == 0 .. CM
        \* incoming steps of v: <<edge index, orientation>> (both orientations of a non-loop edge if undirected)
        InSteps(v) == {<<j, 0>> : j \in {x \in EIdx(g) : Tgt(g, x) = v}}
                      \cup (IF g.dir THEN {} ELSE {<<j, 1>> : j \in {x \in EIdx(g) : Src(g, x) = v /\ Src(g, x) # Tgt(g, x)}})
        From(st) == IF st[2] = 0 THEN Src(g, st[1]) ELSE Tgt(g, st[1])
        \* tables are flat functions over Nodes x C, forced with TLCEval (TLC's functions are lazy otherwise)
        D == Nodes(g) \X C
        Level0 == TLCEval([p \in D |-> IF p[1] = s /\ p[2] = 0 THEN 1 ELSE 0])
        NextLevel(prev) == TLCEval([p \in D |->
                    LET f == [st \in InSteps(p[1]) |-> IF p[2] - Wt(g, st[1]) \in C THEN prev[<<From(st), p[2] - Wt(g, st[1])>>] ELSE 0]
                    IN SumCap(f, InSteps(p[1]), K)])
        AddT(a, b) == TLCEval([p \in D |-> CapAdd(a[p], b[p], K)])
        RECURSIVE Acc(_, _, _)
        Acc(l, cur, acc) == IF l = L THEN acc ELSE LET n == NextLevel(cur) IN Acc(l + 1, n, AddT(acc, n))
        tot == Acc(0, Level0, Level0)
        RECURSIVE Prefix(_, _, _)
        Prefix(v, c, sofar) == IF c > CM THEN <<>> ELSE LET x == CapAdd(sofar, tot[<<v, c>>], K) IN <<x>> \o Prefix(v, c + 1, x)
        upv == TLCEval([v \in Nodes(g) |-> Prefix(v, 0, 0)])          \* upv[v][c+1] = #walks of cost <= c (capped)
    IN [v \in Nodes(g) |-> [k \in 1 .. K |-> IF upv[v][CM + 1] < k THEN -1 ELSE MinSet({c \in C : upv[v][c + 1] >= k})]]

KspOK(g, v, maxw) ==
    \A s \in Nodes(g) :
        LET T == KthTable(g, s, 3, maxw) IN
        \A j \in DOMAIN v : \A x \in Nodes(g) : v[j].d[s + 1][x + 1] = T[x][v[j].k]

Bad(r) ==
    LET g == [n |-> r.n, dir |-> r.dir, E |-> r.E]
        maxw == IF r.E = <<>> THEN 0 ELSE CHOOSE m \in {r.E[j][3] : j \in DOMAIN r.E} : \A j \in DOMAIN r.E : r.E[j][3] <= m
        chk(f, P(_)) == IF Has(r, f) /\ ~(Ok(r[f]) /\ P(r[f][2])) THEN {f} ELSE {}
    IN
    chk("dj", LAMBDA v : DijkstraAllOK(g, v))
    \cup chk("dj_nf", LAMBDA v : DijkstraNfOK(g, v))
    \cup chk("djg", LAMBDA v : \A j \in DOMAIN v : DijkstraGoalOK(g, v[j]))
    \cup chk("astar", LAMBDA v : \A j \in DOMAIN v : AstarOK(g, v[j]))
    \cup chk("ksp", LAMBDA v : /\ \A j \in DOMAIN v : (v[j].k = 1 => DijkstraAllOK(g, v[j].d))
                               /\ KspOK(g, v, maxw))

Init == i \in 1 .. Len(Recs) /\ verdict = "pending"
Next == /\ verdict = "pending"
        /\ LET b == Bad(Recs[i]) IN
           /\ verdict' = IF b = {} THEN "ok" ELSE "bad"
           /\ (b # {} => PrintT(<<"REJECT", i, b>>))
        /\ i' = i
Spec == Init /\ [][Next]_vars
=============================================================================
