SPECIFICATION Spec
CONSTANTS N = 4
  Loops = FALSE
  Mutant = "entry_index"
INVARIANT Inv
CHECK_DEADLOCK FALSE
