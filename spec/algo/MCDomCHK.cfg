SPECIFICATION FairSpec
CONSTANTS N = 3
  MaxEdges = 16
  Loops = TRUE
  Mutant = "none"
INVARIANT Inv
PROPERTY Terminates
CHECK_DEADLOCK FALSE
