----------------------------- MODULE KruskalIx -----------------------------
(* Implementation-shaped model of `min_spanning_tree` (the `MinSpanningTree` iterator, src/algo/min_spanning_tree.rs)
   with the two index spaces it juggles made explicit:

     raw index   g.to_index(node): what the union-find (sized by node_bound) and the heap entries use; a StableGraph
                 or MatrixGraph with removed nodes has vacant raw indices
     position    the place of a node in the emitted node phase (node_map: raw index -> position), which is what the
                 emitted `Element::Edge { source, target }` must carry

   The heap pops edges by weight; the order among equal weights is not specified, so every order is explored.  Checked
   for every set of live indices, every simple weighted graph on them in the bound and every tie order: the emitted
   edges, read back through the node phase, are edges of the graph, form a forest, connect exactly what the graph
   connects (|V| - c edges) and have minimum total weight (cycle property).                                       *)
EXTENDS Integers, Sequences, FiniteSets, TLC, SequencesExt

CONSTANTS B,          \* raw indices 0..B-1 (node_bound <= B)
          MaxW,       \* weights 1..MaxW
          MaxEdges,
          Mutant      \* "none" | "mixed_union" | "raw_positions"

VARIABLES live, wt, heap, part, out, pc
vars == <<live, wt, heap, part, out, pc>>
Raw == 0 .. (B - 1)
\* node phase: live nodes in ascending raw order; node_map
NodeSeq == SetToSortSeq(live, LAMBDA x, y : x < y)
Pos(r) == (CHOOSE i \in DOMAIN NodeSeq : NodeSeq[i] = r) - 1

Init == /\ live \in SUBSET Raw
        /\ \E P \in {X \in SUBSET {e \in live \X live : e[1] <= e[2]} : Cardinality(X) <= MaxEdges} : wt \in [P -> 1 .. MaxW]
        /\ heap = DOMAIN wt /\ part = {{r} : r \in Raw} /\ out = <<>> /\ pc = "edges"

Find(x, p) == CHOOSE c \in p : x \in c
\* one pop of the heap: any edge of minimum weight
Pop ==
    /\ pc = "edges" /\ heap # {}
    /\ \E e \in heap : (\A f \in heap : wt[e] <= wt[f]) /\
         LET a == e[1]   b == e[2]
             ua == IF Mutant = "mixed_union" /\ a \in live THEN Pos(a) ELSE a       \* union(a_order, b_index)
             ca == Find(ua, part)   cb == Find(b, part) IN
         /\ heap' = heap \ {e}
         /\ IF ca = cb THEN UNCHANGED <<part, out>>
            ELSE /\ part' = (part \ {ca, cb}) \cup {ca \cup cb}
                 /\ out' = Append(out, IF Mutant = "raw_positions" THEN <<a, b, wt[e]>> ELSE <<Pos(a), Pos(b), wt[e]>>)
    /\ UNCHANGED <<live, wt, pc>>
Finish == pc = "edges" /\ heap = {} /\ pc' = "done" /\ UNCHANGED <<live, wt, heap, part, out>>
Done == pc = "done" /\ UNCHANGED vars
Spec == Init /\ [][Pop \/ Finish \/ Done]_vars

\* ---------------- what the consumer of the element stream sees
Back(p) == NodeSeq[p + 1]                               \* position -> the node that was emitted at that position
Tree == {<<Back(out[i][1]), Back(out[i][2]), out[i][3]>> : i \in DOMAIN out}
RECURSIVE Comp(_, _)
Comp(X, E) == LET T == X \cup {e[2] : e \in {f \in E : f[1] \in X}} \cup {e[1] : e \in {f \in E : f[2] \in X}} IN IF T = X THEN X ELSE Comp(T, E)
Comps(E) == {Comp({v}, E) : v \in live}
GraphE == {<<e[1], e[2], wt[e]>> : e \in DOMAIN wt}
Final == pc = "done" =>
    /\ \A i \in DOMAIN out : out[i][1] \in 0 .. (Cardinality(live) - 1) /\ out[i][2] \in 0 .. (Cardinality(live) - 1)
    /\ Tree \subseteq GraphE /\ Cardinality(Tree) = Len(out)                       \* edges of the graph, none twice
    /\ Comps(Tree) = Comps({e \in GraphE : e[1] # e[2]})                            \* spans every component
    /\ Len(out) = Cardinality(live) - Cardinality(Comps(GraphE))                   \* a forest: |V| - c edges
    /\ \A e \in GraphE : e[1] # e[2] => e[2] \in Comp({e[1]}, {t \in Tree : t[3] <= e[3]})   \* minimum (cycle property)
=============================================================================
