--------------------------- MODULE TarjanPearce ---------------------------
(* Implementation-shaped model of `algo::TarjanScc` (src/algo/mod.rs): Pearce's space-efficient variant of Tarjan's
   algorithm as coded - one `rootindex` per node that is first a DFS index, then a lowlink, and finally the component
   number counted DOWN from a large value; the node stack filled on backtracking; `index` rewound after a component
   is emitted.  The recursion of `visit` is an explicit frame stack here; the order in which a node's successors are
   taken is arbitrary (every order is explored), the order of the outer loop over the nodes is ascending as in the
   code.

   Checked for every digraph in the bound: the emitted components are exactly the classes of mutual reachability,
   no component can reach a LATER one (reverse topological order), `node_component_index` (rootindex after the run)
   is constant on a component, different across components and greater than `componentcount` (the debug assertion
   of the code), `index < componentcount` always, and the run terminates with every node emitted once.          *)
EXTENDS Integers, Sequences, FiniteSets, TLC, SequencesExt

CONSTANTS N, Loops,
          Mutant      \* "none" | "entry_index" (compare with the index a node got on entry instead of its current root)

BIG == 1000           \* stands for usize::MAX

VARIABLES E, root, index, cc, stack, frames, out, pc
vars == <<E, root, index, cc, stack, frames, out, pc>>
Nodes == 0 .. (N - 1)
Succ(v) == {e[2] : e \in {f \in E : f[1] = v}}

Init == /\ E \in SUBSET {e \in Nodes \X Nodes : Loops \/ e[1] # e[2]}
        /\ root = [v \in Nodes |-> 0] /\ index = 1 /\ cc = BIG /\ stack = <<>> /\ frames = <<>> /\ out = <<>> /\ pc = "run"

Frame(v, i) == [v |-> v, todo |-> Succ(v), cur |-> -1, lroot |-> TRUE, vindex |-> i]
Top == frames[Len(frames)]
SetTop(f) == [frames EXCEPT ![Len(frames)] = f]

\* run(): the outer loop takes the smallest unvisited node
Outer ==
    /\ pc = "run" /\ frames = <<>>
    /\ IF \E v \in Nodes : root[v] = 0
       THEN LET v == CHOOSE x \in Nodes : root[x] = 0 /\ \A y \in Nodes : root[y] = 0 => x <= y IN
            /\ frames' = <<Frame(v, index)>> /\ root' = [root EXCEPT ![v] = index] /\ index' = index + 1
            /\ UNCHANGED <<E, cc, stack, out, pc>>
       ELSE pc' = "done" /\ UNCHANGED <<E, root, index, cc, stack, frames, out>>

\* after a successor w has been handled (visited now or earlier): the lowlink update of the for loop
Compare(f, w) ==
    LET lhs == root[w]
        rhs == IF Mutant = "entry_index" THEN f.vindex ELSE root[f.v] IN
    IF lhs < rhs THEN <<[root EXCEPT ![f.v] = root[w]], [f EXCEPT !.lroot = FALSE, !.cur = -1]>>
    ELSE <<root, [f EXCEPT !.cur = -1]>>

Step ==
    /\ pc = "run" /\ frames # <<>>
    /\ LET f == Top IN
       IF f.cur # -1
       THEN \* back from the recursive visit of f.cur
            LET r == Compare(f, f.cur) IN
            /\ root' = r[1] /\ frames' = SetTop(r[2]) /\ UNCHANGED <<E, index, cc, stack, out, pc>>
       ELSE IF f.todo # {}
       THEN \E w \in f.todo :
              LET f2 == [f EXCEPT !.todo = f.todo \ {w}] IN
              IF root[w] = 0
              THEN /\ frames' = Append(SetTop([f2 EXCEPT !.cur = w]), Frame(w, index))
                   /\ root' = [root EXCEPT ![w] = index] /\ index' = index + 1
                   /\ UNCHANGED <<E, cc, stack, out, pc>>
              ELSE LET r == Compare(f2, w) IN
                   /\ root' = r[1] /\ frames' = SetTop(r[2]) /\ UNCHANGED <<E, index, cc, stack, out, pc>>
       ELSE \* all successors done
            IF f.lroot
            THEN \* pop everything whose rootindex is not below v's: that is v's component
                 LET keep == IF \E k \in DOMAIN stack : root[f.v] > root[stack[k]]
                             THEN CHOOSE k \in DOMAIN stack : root[f.v] > root[stack[k]] /\ \A j \in (k + 1) .. Len(stack) : ~(root[f.v] > root[stack[j]])
                             ELSE 0
                     popped == {stack[j] : j \in (keep + 1) .. Len(stack)} IN
                 /\ out' = Append(out, popped \cup {f.v})
                 /\ root' = [x \in Nodes |-> IF x \in popped \cup {f.v} THEN cc ELSE root[x]]
                 /\ stack' = SubSeq(stack, 1, keep)
                 /\ index' = index - (1 + Cardinality(popped))
                 /\ cc' = cc - 1
                 /\ frames' = SubSeq(frames, 1, Len(frames) - 1)
                 /\ UNCHANGED <<E, pc>>
            ELSE /\ stack' = Append(stack, f.v)
                 /\ frames' = SubSeq(frames, 1, Len(frames) - 1)
                 /\ UNCHANGED <<E, root, index, cc, out, pc>>
Done == pc = "done" /\ UNCHANGED vars
Next == Outer \/ Step \/ Done
Spec == Init /\ [][Next]_vars
FairSpec == Spec /\ WF_vars(Outer \/ Step)

\* ---------------- definitions
RECURSIVE ReachSet(_)
ReachSet(X) == LET T == X \cup UNION {Succ(u) : u \in X} IN IF T = X THEN X ELSE ReachSet(T)
Reaches(a, b) == b \in ReachSet({a})
SCC(v) == {w \in Nodes : Reaches(v, w) /\ Reaches(w, v)}

IndexInv == index < cc
Final == pc = "done" =>
    /\ {out[i] : i \in DOMAIN out} = {SCC(v) : v \in Nodes} /\ Len(out) = Cardinality({SCC(v) : v \in Nodes})
    /\ \A i, j \in DOMAIN out : i < j => \A a \in out[i], b \in out[j] : ~Reaches(a, b)      \* no component reaches a later one
    /\ \A v, w \in Nodes : (root[v] = root[w]) = (SCC(v) = SCC(w))                          \* node_component_index
    /\ \A v \in Nodes : root[v] > cc
    /\ stack = <<>>
Inv == IndexInv /\ Final
Terminates == <>(pc = "done")
=============================================================================
