------------------------------ MODULE DomCHK ------------------------------
(* Implementation-shaped model of `algo::dominators::simple_fast` (Cooper / Harvey / Kennedy, "A Simple, Fast
   Dominance Algorithm") as coded in src/algo/dominators.rs:

     1. a DFS post-order of the nodes reachable from the root (`simple_fast_post_order`), which also collects the
        predecessor SETS (hash sets: their iteration order is arbitrary);
     2. `dominators[idx]` over post-order indices, root = its own dominator, everything else UNDEFINED;
     3. passes in reverse post-order until nothing changes: the new idom of a node is the fold of `intersect` over
        its predecessors that already have a dominator, in the (arbitrary) iteration order of the set;
     4. `intersect` walks two fingers up the current tree until they meet.

   What a test run cannot force is covered here by nondeterminism: EVERY depth-first order of the graph and EVERY
   iteration order of every predecessor set is explored, for every digraph in the bound.  Checked: the `expect` of the
   code can never fail (a processed predecessor always exists), `intersect` always terminates inside the array, and
   the result is the immediate-dominator relation by definition (d dominates v iff every path root ~> v passes d).   *)
EXTENDS Integers, Sequences, FiniteSets, TLC, SequencesExt

CONSTANTS N,          \* nodes 0..N-1, root 0
          Loops,      \* allow self-loops
          MaxEdges,   \* only digraphs with at most this many edges (N * N = no restriction)
          Mutant      \* "none" | "sibling_shortcut" | "last_changed"

VARIABLES E,          \* the digraph (chosen in Init)
          po,         \* post-order built so far (sequence of nodes)
          stack,      \* DFS stack of nodes being explored
          seen,       \* discovered nodes
          dom,        \* post-order index (1-based) -> dominator index, 0 = UNDEFINED
          idx,        \* index being processed in the current pass (counts down), 0 = pass finished
          changed, pc, panic
vars == <<E, po, stack, seen, dom, idx, changed, pc, panic>>

Nodes == 0 .. (N - 1)
Succ(v) == {e[2] : e \in {f \in E : f[1] = v}}
Pred(v) == {e[1] : e \in {f \in E : f[2] = v}}

Init == /\ E \in {X \in SUBSET {e \in Nodes \X Nodes : Loops \/ e[1] # e[2]} : Cardinality(X) <= MaxEdges}
        /\ po = <<>> /\ stack = <<0>> /\ seen = {0} /\ dom = <<>> /\ idx = 0 /\ changed = FALSE /\ pc = "dfs" /\ panic = FALSE

\* DfsPostOrder: descend into ANY undiscovered successor of the top of the stack; emit the top when it has none
Dfs ==
    /\ pc = "dfs" /\ stack # <<>>
    /\ LET v == stack[Len(stack)]   fresh == Succ(v) \ seen IN
       IF fresh # {}
       THEN \E w \in fresh : stack' = Append(stack, w) /\ seen' = seen \cup {w} /\ UNCHANGED po
       ELSE stack' = SubSeq(stack, 1, Len(stack) - 1) /\ po' = Append(po, v) /\ UNCHANGED seen
    /\ UNCHANGED <<E, dom, idx, changed, pc, panic>>
StartPasses ==
    /\ pc = "dfs" /\ stack = <<>>
    /\ dom' = [i \in 1 .. Len(po) |-> IF i = Len(po) THEN Len(po) ELSE 0]
    /\ idx' = Len(po) - 1 /\ changed' = FALSE /\ pc' = "pass"
    /\ UNCHANGED <<E, po, stack, seen, panic>>

Ix(v) == CHOOSE i \in DOMAIN po : po[i] = v
\* intersect: <<result, ok>>; a finger leaving the array or looping is the failure the code would hit
RECURSIVE Intersect(_, _, _, _)
Intersect(d, f1, f2, fuel) ==
    IF fuel = 0 \/ f1 = 0 \/ f2 = 0 THEN <<0, FALSE>>
    ELSE IF Mutant = "sibling_shortcut" /\ d[f1] = d[f2] /\ d[f1] # 0 THEN <<d[f1], TRUE>>
    ELSE IF f1 = f2 THEN <<f1, TRUE>>
    ELSE IF f1 < f2 THEN Intersect(d, d[f1], f2, fuel - 1)
    ELSE Intersect(d, f1, d[f2], fuel - 1)
RECURSIVE Fold(_, _, _)
Fold(d, acc, rest) == IF rest = <<>> THEN <<acc, TRUE>>
                      ELSE LET r == Intersect(d, acc, Head(rest), 2 * Len(po) + 2) IN
                           IF r[2] THEN Fold(d, r[1], Tail(rest)) ELSE <<0, FALSE>>

Perms(S) == {s \in [1 .. Cardinality(S) -> S] : \A i, j \in DOMAIN s : i # j => s[i] # s[j]}

Step ==
    /\ pc = "pass" /\ idx >= 1
    /\ LET v == po[idx]
           ready == {Ix(p) : p \in {q \in Pred(v) : q \in seen}} \cap {i \in DOMAIN dom : dom[i] # 0} IN
       IF ready = {}
       THEN panic' = TRUE /\ pc' = "done" /\ UNCHANGED <<dom, idx, changed>>          \* the expect(..) of the code
       ELSE \E order \in Perms(ready) :                                            \* any iteration order of the hash set
              LET r == Fold(dom, order[1], Tail(order)) IN
              IF ~r[2] THEN panic' = TRUE /\ pc' = "done" /\ UNCHANGED <<dom, idx, changed>>
              ELSE /\ dom' = [dom EXCEPT ![idx] = r[1]]
                   /\ changed' = (IF Mutant = "last_changed" THEN r[1] # dom[idx] ELSE changed \/ r[1] # dom[idx])
                   /\ idx' = idx - 1 /\ UNCHANGED <<pc, panic>>
    /\ UNCHANGED <<E, po, stack, seen>>
EndPass ==
    /\ pc = "pass" /\ idx = 0
    /\ IF changed THEN idx' = Len(po) - 1 /\ changed' = FALSE /\ pc' = "pass" ELSE pc' = "done" /\ UNCHANGED <<idx, changed>>
    /\ UNCHANGED <<E, po, stack, seen, dom, panic>>
Done == pc = "done" /\ UNCHANGED vars
Next == Dfs \/ StartPasses \/ Step \/ EndPass \/ Done
Spec == Init /\ [][Next]_vars
FairSpec == Spec /\ WF_vars(Dfs \/ StartPasses \/ Step \/ EndPass)

\* ---------------- definition of dominance, independent of the algorithm
RECURSIVE ReachAvoid(_, _)
ReachAvoid(X, d) == LET T == X \cup {w \in UNION {Succ(u) : u \in X} : w # d} IN IF T = X THEN X ELSE ReachAvoid(T, d)
Reach == ReachAvoid({0}, -1)
\* d dominates v: v is unreachable from the root once d is removed (or d = v)
Dominates(d, v) == d = v \/ (d = 0 /\ v \in Reach) \/ (d # 0 /\ v \in Reach /\ v \notin ReachAvoid({0}, d))
StrictDoms(v) == {d \in Reach : d # v /\ Dominates(d, v)}
\* the immediate dominator: the strict dominator dominated by all the others
IDom(v) == CHOOSE d \in StrictDoms(v) : \A x \in StrictDoms(v) : Dominates(x, d)

NoPanic == ~panic
PostOrderOK == pc # "dfs" => /\ {po[i] : i \in DOMAIN po} = Reach /\ Len(po) = Cardinality(Reach) /\ po[Len(po)] = 0
Correct == (pc = "done" /\ ~panic) =>
              \A i \in 1 .. (Len(po) - 1) : dom[i] # 0 /\ po[dom[i]] = IDom(po[i])
Inv == NoPanic /\ PostOrderOK /\ Correct
Terminates == <>(pc = "done")
=============================================================================
