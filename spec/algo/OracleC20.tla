----------------------------- MODULE OracleC20 -----------------------------
(* C20: maximal cliques, DSatur colouring, greedy feedback arc set, transitive reduction /
   closure, all simple paths, Steiner tree (2-approximation), PageRank - each judged by its
   defining specification. *)
EXTENDS GraphTheory, Json, IOUtils, TLC
Recs == ndJsonDeserialize(IOEnv.RECORDS)
VARIABLES i, verdict
vars == <<i, verdict>>
Has(r, f) == f \in DOMAIN r
Ok(o) == o[1] = "ok"

UAdj(g, a, b) == a # b /\ \E j \in EIdx(g) : {Src(g, j), Tgt(g, j)} = {a, b}
IsClique(g, C) == \A a, b \in C : a # b => UAdj(g, a, b)
MaximalCliques(g) == {C \in SUBSET Nodes(g) : IsClique(g, C) /\ \A v \in Nodes(g) \ C : ~IsClique(g, C \cup {v})}
CliquesOK(g, v) == /\ {SeqRange(v[j]) : j \in DOMAIN v} = MaximalCliques(g)
                   /\ Len(v) = Cardinality(MaximalCliques(g))
                   /\ \A j \in DOMAIN v : Len(v[j]) = Cardinality(SeqRange(v[j]))

ColorOK(g, c) ==
    LET used == SeqRange(c.c) IN
    /\ c.extra = 0 /\ \A x \in Nodes(g) : c.c[x + 1] >= 0                     \* one colour per node
    /\ \A j \in EIdx(g) : Src(g, j) # Tgt(g, j) => c.c[Src(g, j) + 1] # c.c[Tgt(g, j) + 1]   \* proper
    /\ used = 0 .. (c.k - 1)                                                   \* colours 0..k-1, k reported
    /\ ((\A s \in Nodes(g) : Bipartite(g, s)) => c.k <= 2)

\* removing the returned arcs (as a multiset) leaves an acyclic graph; every self-loop is among them
RECURSIVE RemoveBag(_, _)
RemoveBag(E, rem) == IF rem = <<>> THEN E
                     ELSE LET x == Head(rem)
                              pos == {j \in DOMAIN E : E[j] = x} IN
                          IF pos = {} THEN <<<<-1, -1, -1>>>>      \* not an edge of the graph: poison
                          ELSE LET p == CHOOSE q \in pos : TRUE IN
                               RemoveBag(SubSeq(E, 1, p - 1) \o SubSeq(E, p + 1, Len(E)), Tail(rem))
FasOK(g, v) ==
    LET rest == RemoveBag(g.E, v)
        h == [n |-> g.n, dir |-> TRUE, E |-> rest] IN
    /\ (rest = <<>> \/ rest[1][1] # -1)
    /\ ~HasDirCycle(h)

\* tred/tclos of a DAG through its toposorted adjacency list
TredOK(g, t) ==
    LET rank(u) == t.revmap[u + 1]                      \* abstract node -> rank in the toposort
        plus(u) == ReachPlus(g, u)
        longer(a, b) == \E m \in Succ(g, a) : m # b /\ b \in ReachPlus(g, m)    \* a path of length >= 2
    IN
    /\ IsTopoOrder(g, t.topo)
    /\ \A k \in DOMAIN t.topo : rank(t.topo[k]) = k - 1
    /\ \A u \in Nodes(g) : SeqRange(t.res[rank(u) + 1]) = {rank(x) : x \in Succ(g, u)}
    /\ \A u \in Nodes(g) : /\ SeqRange(t.tclos[rank(u) + 1]) = {rank(x) : x \in plus(u)}
                           /\ Len(t.tclos[rank(u) + 1]) = Cardinality(plus(u))
                           /\ SeqRange(t.tred[rank(u) + 1]) = {rank(x) : x \in {y \in Succ(g, u) : ~longer(u, y)}}
                           /\ Len(t.tred[rank(u) + 1]) = Cardinality({y \in Succ(g, u) : ~longer(u, y)})

\* all simple paths a -> b: sequences of distinct nodes following edges
RECURSIVE Extend(_, _, _)
Extend(g, P, b) ==      \* P: set of simple paths (sequences) not yet ending in b
    LET nxt == {Append(p, x) : p \in P, x \in Nodes(g)} IN
    LET ok == {q \in nxt : q[Len(q)] \in Succ(g, q[Len(q) - 1]) /\ \A k \in 1 .. (Len(q) - 1) : q[k] # q[Len(q)]} IN
    LET done == {q \in ok : q[Len(q)] = b}   cont == ok \ done IN
    IF cont = {} THEN done ELSE done \cup Extend(g, cont, b)
SimplePaths(g, a, b) == Extend(g, {<<a>>}, b)
PathsOK(g, c) ==
    LET all == SimplePaths(g, c.a, c.b)
        want == {p \in all : Len(p) - 2 >= c.min /\ (c.max = -1 \/ Len(p) - 2 <= c.max)}
    IN /\ SeqRange(c.ps) = want
       /\ (\A j, k \in EIdx(g) : j # k => <<Src(g, j), Tgt(g, j)>> # <<Src(g, k), Tgt(g, k)>>) => Len(c.ps) = Cardinality(want)

\* Steiner tree: inside the graph, a tree, contains the terminals, leaves are terminals, weight <= 2 OPT
TreeWeight(E) == FoldSet(LAMBDA j, acc : acc + E[j][3], 0, DOMAIN E)
InducedG(g, S) == [n |-> g.n, dir |-> FALSE, E |-> SelectSeq(g.E, LAMBDA e : e[1] \in S /\ e[2] \in S)]
\* weight of a minimum spanning tree of the subgraph induced by S (S connected): min over spanning trees
MstWeight(g, S) ==
    LET h == InducedG(g, S)
        k == Cardinality(S) - 1
        trees == {T \in kSubset(k, EIdx(h)) :
                    LET t == [n |-> g.n, dir |-> FALSE, E |-> [j \in 1 .. k |-> h.E[SetToSeq(T)[j]]]] IN
                    \A u \in S : S \subseteq WComp(t, u)}
    IN CHOOSE m \in {FoldSet(LAMBDA j, acc : acc + h.E[j][3], 0, T) : T \in trees} :
            \A T \in trees : m <= FoldSet(LAMBDA j, acc : acc + h.E[j][3], 0, T)
ConnectedSet(g, S) == LET h == InducedG(g, S) IN \A u \in S : S \subseteq WComp(h, u)
SteinerOpt(g, terms) ==
    LET cands == {S \in SUBSET Nodes(g) : terms \subseteq S /\ ConnectedSet(g, S)}
        ws == {MstWeight(g, S) : S \in cands}
    IN CHOOSE m \in ws : \A x \in ws : m <= x
SteinerOK(g, c) ==
    LET terms == SeqRange(c.terms)
        N == SeqRange(c.nodes)
        t == [n |-> g.n, dir |-> FALSE, E |-> c.edges]
        deg(v) == Cardinality({j \in DOMAIN c.edges : c.edges[j][1] = v \/ c.edges[j][2] = v})
        bagT == [x \in {<<IF e[1] <= e[2] THEN e[1] ELSE e[2], IF e[1] <= e[2] THEN e[2] ELSE e[1], e[3]>> : e \in SeqRange(c.edges)} |-> 0]
    IN
    /\ terms \subseteq N /\ N \subseteq Nodes(g)
    /\ \A j \in DOMAIN c.edges : c.edges[j][1] \in N /\ c.edges[j][2] \in N
          /\ \E k \in EIdx(g) : {g.E[k][1], g.E[k][2]} = {c.edges[j][1], c.edges[j][2]} /\ g.E[k][3] = c.edges[j][3]
    /\ Len(c.edges) = Cardinality(N) - 1                       \* a tree: connected with |N|-1 edges
    /\ \A u \in N : N \subseteq WComp(t, u)
    /\ \A v \in N : deg(v) <= 1 => v \in terms                  \* leaves are terminals
    /\ TreeWeight(c.edges) <= 2 * SteinerOpt(g, terms)

\* PageRank: one non-negative rank per node index summing to 1 (scaled by 10^6, tolerance 10^3)
Abs(x) == IF x < 0 THEN -x ELSE x
PrOK(g, p) == IF g.n = 0 THEN p.len = 0 ELSE
              /\ ~p.neg
              /\ \A j \in DOMAIN p.r : p.r[j] >= 0
              /\ p.sum >= 999000 /\ p.sum <= 1001000
              \* equivariance: the same abstract node gets the same rank in every encoding / numbering
              /\ Len(p.ref) = Len(p.r) /\ \A j \in DOMAIN p.r : Abs(p.r[j] - p.ref[j]) <= 200

Bad(r) ==
    LET g == [n |-> r.n, dir |-> r.dir, E |-> r.E]
        chk(f, P(_)) == IF Has(r, f) /\ ~(Ok(r[f]) /\ P(r[f][2])) THEN {f} ELSE {}
    IN
    chk("cliques", LAMBDA v : CliquesOK(g, v))
    \cup chk("color", LAMBDA v : ColorOK(g, v))
    \cup chk("fas", LAMBDA v : FasOK(g, v))
    \cup chk("tred", LAMBDA v : TredOK(g, v))
    \cup chk("paths", LAMBDA v : \A j \in DOMAIN v : PathsOK(g, v[j]))
    \cup chk("steiner", LAMBDA v : \A j \in DOMAIN v : SteinerOK(g, v[j]))
    \* reported separately: no rank vector entry for the highest node indices (index space with holes)
    \cup (IF Has(r, "pr") /\ Ok(r.pr) /\ r.pr[2].len # r.pr[2].bound THEN {"pr_holes"}
          ELSE chk("pr", LAMBDA v : PrOK(g, v)))

Init == i \in 1 .. Len(Recs) /\ verdict = "pending"
Next == /\ verdict = "pending"
        /\ LET b == Bad(Recs[i]) IN
           /\ verdict' = IF b = {} THEN "ok" ELSE "bad"
           /\ (b # {} => PrintT(<<"REJECT", i, b>>))
        /\ i' = i
Spec == Init /\ [][Next]_vars
=============================================================================
