----------------------------- MODULE OracleC15 -----------------------------
(* C15: greedy_matching / maximum_matching (valid; maximum = max over ALL matchings)
   and ford_fulkerson (feasible flow, value = net out of s = capacity of a minimum cut). *)
EXTENDS GraphTheory, Json, IOUtils, TLC
Recs == ndJsonDeserialize(IOEnv.RECORDS)
VARIABLES i, verdict
vars == <<i, verdict>>
Has(r, f) == f \in DOMAIN r
Ok(o) == o[1] = "ok"

Joined(g, a, b) == a # b /\ \E j \in EIdx(g) : {Src(g, j), Tgt(g, j)} = {a, b}     \* a non-loop edge, direction ignored

\* m is a valid matching and every accessor agrees with `mate`
MatchingOKp(g, m, withPerfect) ==
    LET mate(v) == m.mate[v + 1]
        pairs == {{v, mate(v)} : v \in {x \in Nodes(g) : mate(x) # -1}}
    IN
    /\ \A v \in Nodes(g) : mate(v) # -1 => /\ mate(v) \in Nodes(g) /\ mate(mate(v)) = v /\ Joined(g, v, mate(v))
    /\ m.len = Cardinality(pairs) /\ m.is_empty = (pairs = {})
    /\ (withPerfect => m.perfect = (2 * Cardinality(pairs) = g.n))
    /\ {{m.edges[j][1], m.edges[j][2]} : j \in DOMAIN m.edges} = pairs /\ Len(m.edges) = Cardinality(pairs)
    /\ SeqRange(m.nodes) = UNION pairs /\ Len(m.nodes) = Cardinality(UNION pairs)
    /\ \A v \in Nodes(g) : m.cn[v + 1] = (mate(v) # -1)
    /\ \A a, b \in Nodes(g) : m.ce[a + 1][b + 1] = (mate(a) = b)

MatchingOK(g, m) == MatchingOKp(g, m, TRUE)
\* the node-induced subgraph on the even nodes (what NodeFiltered by parity presents); is_perfect is not offered there
NFeven(g) == [g EXCEPT !.E = SelectSeq(g.E, LAMBDA e : e[1] % 2 = 0 /\ e[2] % 2 = 0)]

\* size of a largest matching: max over all sets of pairwise disjoint joinable pairs
AllPairs(g) == {p \in SUBSET Nodes(g) : Cardinality(p) = 2 /\ \E a, b \in p : a # b /\ Joined(g, a, b)}
IsMatchingSet(M) == \A p, q \in M : p # q => p \cap q = {}
MaxMatchingSize(g) ==
    LET P == AllPairs(g)
        sizes == {Cardinality(M) : M \in {X \in SUBSET P : IsMatchingSet(X)}}
    IN CHOOSE k \in sizes : \A x \in sizes : x <= k

\* Tutte-Berge: for ANY set U of nodes, no matching has more than (n + |U| - odd(G - U)) / 2 edges, where odd counts the
\* components of G - U with an odd number of nodes.  A matching that meets the bound of the recorded U is therefore
\* maximum - whatever produced U (the harness finds it by brute force; a bad U can only fail to certify).
TBBound(g, U) ==
    LET rest == Nodes(g) \ U
        h == [n |-> g.n, dir |-> FALSE, E |-> SelectSeq(g.E, LAMBDA e : e[1] \in rest /\ e[2] \in rest /\ e[1] # e[2])]
        comps == {WComp(h, v) \cap rest : v \in rest}
        odd == Cardinality({c \in comps : Cardinality(c) % 2 = 1})
    IN (g.n + Cardinality(U) - odd) \div 2

\* flow record: s, t, value, edges = <<u, v, cap, flow>> for every edge of the network
FlowOK(g, c) ==
    LET F == c.edges
        outflow(v) == FoldSet(LAMBDA j, acc : acc + F[j][4], 0, {j \in DOMAIN F : F[j][1] = v})
        inflow(v)  == FoldSet(LAMBDA j, acc : acc + F[j][4], 0, {j \in DOMAIN F : F[j][2] = v})
        cutcap(S)  == FoldSet(LAMBDA j, acc : acc + F[j][3], 0, {j \in DOMAIN F : F[j][1] \in S /\ F[j][2] \notin S})
        cuts == {S \in SUBSET Nodes(g) : c.s \in S /\ c.t \notin S}
        bagF == [x \in {<<F[j][1], F[j][2], F[j][3]>> : j \in DOMAIN F} |-> Cardinality({j \in DOMAIN F : <<F[j][1], F[j][2], F[j][3]>> = x})]
        bagE == [x \in SeqRange(g.E) |-> Cardinality({j \in EIdx(g) : g.E[j] = x})]
    IN
    /\ bagF = bagE                                                   \* one flow entry per edge of the network
    /\ \A j \in DOMAIN F : 0 <= F[j][4] /\ F[j][4] <= F[j][3]         \* capacity
    /\ \A v \in Nodes(g) \ {c.s, c.t} : inflow(v) = outflow(v)        \* conservation
    /\ c.value = outflow(c.s) - inflow(c.s)
    /\ c.value = CHOOSE m \in {cutcap(S) : S \in cuts} : \A S \in cuts : m <= cutcap(S)

Bad(r) ==
    LET g == [n |-> r.n, dir |-> r.dir, E |-> r.E]
        chk(f, P(_)) == IF Has(r, f) /\ ~(Ok(r[f]) /\ P(r[f][2])) THEN {f} ELSE {}
    IN
    chk("greedy", LAMBDA v : MatchingOK(g, v))
    \cup chk("maxm", LAMBDA v : MatchingOK(g, v))
    \* reported separately: a valid matching that is not of maximum size
    \cup (IF Has(r, "maxm") /\ Ok(r.maxm) /\ MatchingOK(g, r.maxm[2])
             /\ r.maxm[2].len # (IF Has(r, "tb_u") THEN TBBound(g, SeqRange(r.tb_u)) ELSE MaxMatchingSize(g))
          THEN {"maxm_size"} ELSE {})
    \cup chk("greedy_nf", LAMBDA v : MatchingOKp(NFeven(g), v, FALSE))
    \cup chk("maxm_nf", LAMBDA v : MatchingOKp(NFeven(g), v, FALSE))
    \cup (IF Has(r, "maxm_nf") /\ Ok(r.maxm_nf) /\ MatchingOKp(NFeven(g), r.maxm_nf[2], FALSE) /\ r.maxm_nf[2].len # MaxMatchingSize(NFeven(g))
          THEN {"maxm_size"} ELSE {})
    \cup chk("flow", LAMBDA v : \A j \in DOMAIN v : FlowOK(g, v[j]))

Init == i \in 1 .. Len(Recs) /\ verdict = "pending"
Next == /\ verdict = "pending"
        /\ LET b == Bad(Recs[i]) IN
           /\ verdict' = IF b = {} THEN "ok" ELSE "bad"
           /\ (b # {} => PrintT(<<"REJECT", i, b>>))
        /\ i' = i
Spec == Init /\ [][Next]_vars
=============================================================================
