------------------------------- MODULE Paths -------------------------------
(* Shortest walks by definition: MinWalk(g, s, k)[v] = the minimum cost over all
   walks from s to v that use at most k edges (INF if there is none).  With
   non-negative costs MinWalk(g, s, n-1) is the shortest-path distance; in general
   a negative cycle is reachable from s iff one more edge still improves some node. *)
EXTENDS GraphTheory, TLC

INF == 1000000000
Min2(a, b) == IF a < b THEN a ELSE b
MinSet(S) == CHOOSE m \in S : \A x \in S : m <= x
Plus(a, w) == IF a >= INF THEN INF ELSE a + w

\* edges usable as a step u -> v: index set, with both orientations when undirected
StepCosts(g, u, v) == {Wt(g, i) : i \in {j \in EIdx(g) : (Src(g, j) = u /\ Tgt(g, j) = v) \/ (~g.dir /\ Src(g, j) = v /\ Tgt(g, j) = u)}}
HasStep(g, u, v) == StepCosts(g, u, v) # {}
MinStep(g, u, v) == MinSet(StepCosts(g, u, v))

RECURSIVE MinWalk(_, _, _)
MinWalk(g, s, k) ==
    \* TLCEval forces the table to be computed once per level (TLC's functions are lazy otherwise)
    IF k = 0 THEN TLCEval([v \in Nodes(g) |-> IF v = s THEN 0 ELSE INF])
    ELSE LET d == MinWalk(g, s, k - 1) IN
         TLCEval([v \in Nodes(g) |->
            LET cands == {Plus(d[Src(g, i)], Wt(g, i)) : i \in {j \in EIdx(g) : Tgt(g, j) = v}}
                         \cup (IF g.dir THEN {} ELSE {Plus(d[Tgt(g, i)], Wt(g, i)) : i \in {j \in EIdx(g) : Src(g, j) = v}})
            IN MinSet(cands \cup {d[v]})])

Dist(g, s) == MinWalk(g, s, g.n - 1)
NegCycleFrom(g, s) == MinWalk(g, s, g.n) # MinWalk(g, s, g.n - 1)
NegCycleAnywhere(g) == \E s \in Nodes(g) : NegCycleFrom(g, s)

\* cost of a node sequence using the cheapest parallel edge at every step (INF if not a walk)
RECURSIVE WalkCost(_, _)
WalkCost(g, p) == IF Len(p) <= 1 THEN 0
                  ELSE IF ~HasStep(g, p[1], p[2]) THEN INF
                  ELSE Plus(WalkCost(g, Tail(p)), MinStep(g, p[1], p[2]))
IsWalk(g, p) == \A i \in 1 .. (Len(p) - 1) : HasStep(g, p[i], p[i + 1])
=============================================================================
