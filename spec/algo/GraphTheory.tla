---------------------------- MODULE GraphTheory ----------------------------
(* Graph theory by definition, over a recorded abstract graph
       g = [n |-> number of nodes (0..n-1), dir |-> BOOLEAN, E |-> <<<<s,t,w>>, ...>>]
   Everything here is a *definition* (closure, minimum over all ..., exists a
   bijection ...), not an algorithm: it is the oracle for C07-C16 and C20.     *)
EXTENDS Integers, Sequences, FiniteSets, SequencesExt, FiniteSetsExt

Nodes(g) == 0 .. (g.n - 1)
EIdx(g)  == DOMAIN g.E
Src(g, i) == g.E[i][1]
Tgt(g, i) == g.E[i][2]
Wt(g, i)  == g.E[i][3]

\* successors / predecessors following edge direction (both ways when undirected)
Succ(g, u) == {Tgt(g, i) : i \in {j \in EIdx(g) : Src(g, j) = u}}
              \cup (IF g.dir THEN {} ELSE {Src(g, i) : i \in {j \in EIdx(g) : Tgt(g, j) = u}})
Pred(g, u) == {Src(g, i) : i \in {j \in EIdx(g) : Tgt(g, j) = u}}
              \cup (IF g.dir THEN {} ELSE {Tgt(g, i) : i \in {j \in EIdx(g) : Src(g, j) = u}})
\* neighbours ignoring direction
Nbr(g, u) == {Tgt(g, i) : i \in {j \in EIdx(g) : Src(g, j) = u}} \cup {Src(g, i) : i \in {j \in EIdx(g) : Tgt(g, j) = u}}

RECURSIVE Closure(_, _, _)
\* least set containing S and closed under step(_)
Closure(g, S, und) ==
    LET T == S \cup UNION {IF und THEN Nbr(g, u) ELSE Succ(g, u) : u \in S}
    IN IF T = S THEN S ELSE Closure(g, T, und)

ReachFrom(g, u)  == Closure(g, {u}, FALSE)                 \* u itself included (empty path)
ReachPlus(g, u)  == Closure(g, Succ(g, u), FALSE) \cup Succ(g, u)    \* by at least one edge
Reaches(g, u, v) == v \in ReachFrom(g, u)
WComp(g, u)      == Closure(g, {u}, TRUE)                  \* weakly connected component
WComps(g)        == {WComp(g, u) : u \in Nodes(g)}
ReachMap(g)      == [u \in Nodes(g) |-> ReachFrom(g, u)]

\* strongly connected components as a set of node sets (uses a precomputed reach map R)
SCCsOf(g, R) == {{v \in Nodes(g) : v \in R[u] /\ u \in R[v]} : u \in Nodes(g)}

HasDirCycle(g) == \E u \in Nodes(g) : u \in ReachPlus(g, u)
\* ignoring direction, counting parallel edges and self-loops: a forest has exactly n - c edges
HasUndCycle(g) == Len(g.E) # g.n - Cardinality(WComps(g))

\* 2-colourability of the (undirected sense) component of s
Bipartite(g, s) ==
    LET C == WComp(g, s) IN
    \E f \in [C -> {0, 1}] : \A i \in EIdx(g) : Src(g, i) \in C => f[Src(g, i)] # f[Tgt(g, i)]

SeqRange(s) == {s[i] : i \in DOMAIN s}
IsPermOfNodes(g, s) == Len(s) = g.n /\ SeqRange(s) = Nodes(g)
PosIn(s, v) == CHOOSE i \in DOMAIN s : s[i] = v
IsTopoOrder(g, s) == /\ IsPermOfNodes(g, s)
                     /\ \A i \in EIdx(g) : PosIn(s, Src(g, i)) < PosIn(s, Tgt(g, i))

\* a list of node lists is a partition of the nodes into exactly the sets in P
IsPartitionList(g, L, P) ==
    /\ {SeqRange(L[i]) : i \in DOMAIN L} = P
    /\ Len(L) = Cardinality(P)
    /\ \A i \in DOMAIN L : Len(L[i]) = Cardinality(SeqRange(L[i]))
=============================================================================
