----------------------------- MODULE OracleC11 -----------------------------
(* C11: bellman_ford, spfa, floyd_warshall(_path), find_negative_cycle with negative
   costs - judged against MinWalk (minimum over all walks of bounded length).
   Distances: INF (10^9) stands for infinite / K::max(); predecessors: -1 = None.  *)
EXTENDS Paths, Json, IOUtils
Recs == ndJsonDeserialize(IOEnv.RECORDS)
VARIABLES i, verdict
vars == <<i, verdict>>
Has(r, f) == f \in DOMAIN r
Ok(o) == o[1] = "ok"

\* following pred from v reaches s within n steps (the predecessor map is a tree rooted at s)
RECURSIVE Climbs(_, _, _, _)
Climbs(pred, v, s, fuel) == IF v = s THEN TRUE ELSE IF fuel = 0 \/ pred[v + 1] = -1 THEN FALSE
                            ELSE Climbs(pred, pred[v + 1], s, fuel - 1)

\* single-source result o for source s: <<"negcycle">> or <<"paths", dist, pred>>
SsspOK(g, s, o) ==
    IF NegCycleFrom(g, s) THEN o = <<"negcycle">>
    ELSE LET d == Dist(g, s) IN
         /\ o[1] = "paths"
         /\ \A v \in Nodes(g) : o[2][v + 1] = d[v]
         /\ o[3][s + 1] = -1
         /\ \A v \in Nodes(g) \ {s} :
              IF d[v] >= INF THEN o[3][v + 1] = -1
              ELSE LET u == o[3][v + 1] IN
                   /\ u \in Nodes(g) /\ HasStep(g, u, v)
                   /\ \E w \in StepCosts(g, u, v) : d[u] + w = d[v]
                   /\ Climbs(o[3], v, s, g.n)

FncOK(g, s, o) ==
    IF ~NegCycleFrom(g, s) THEN o = <<"none">>
    ELSE /\ o[1] = "some"
         /\ LET c == o[2] IN
            /\ Len(c) >= 1 /\ SeqRange(c) \subseteq Nodes(g)
            /\ LET closed == c \o <<c[1]>> IN IsWalk(g, closed) /\ WalkCost(g, closed) < 0

\* all-pairs: <<"negcycle">> iff any negative cycle exists anywhere
ApspOK(g, o, withPrev) ==
    IF NegCycleAnywhere(g) THEN o = <<"negcycle">>
    ELSE /\ o[1] = "dist"
         /\ \A a \in Nodes(g) : LET d == Dist(g, a) IN
              /\ \A b \in Nodes(g) : o[2][a + 1][b + 1] = d[b]
              /\ withPrev => \A b \in Nodes(g) :
                    LET p == o[3][a + 1][b + 1] IN
                    IF a = b \/ d[b] >= INF THEN TRUE       \* entries for trivial / unreachable pairs are not used
                    ELSE /\ p \in Nodes(g) /\ HasStep(g, p, b)
                         /\ \E w \in StepCosts(g, p, b) : d[p] + w = d[b]

Bad(r) ==
    LET g == [n |-> r.n, dir |-> r.dir, E |-> r.E]
        chk(f, P(_)) == IF Has(r, f) /\ ~(Ok(r[f]) /\ P(r[f][2])) THEN {f} ELSE {}
    IN
    chk("bf", LAMBDA v : \A s \in Nodes(g) : SsspOK(g, s, v[s + 1]))
    \cup chk("spfa", LAMBDA v : \A s \in Nodes(g) : SsspOK(g, s, v[s + 1]))
    \cup chk("fnc", LAMBDA v : \A s \in Nodes(g) : FncOK(g, s, v[s + 1]))
    \cup (IF Has(r, "fw") /\ ~(Ok(r.fw) /\ ApspOK(g, r.fw[2], FALSE)) THEN {"fw"} ELSE {})
    \cup (IF Has(r, "fwp") /\ ~(Ok(r.fwp) /\ ApspOK(g, r.fwp[2], TRUE)) THEN {"fwp"} ELSE {})

Init == i \in 1 .. Len(Recs) /\ verdict = "pending"
Next == /\ verdict = "pending"
        /\ LET b == Bad(Recs[i]) IN
           /\ verdict' = IF b = {} THEN "ok" ELSE "bad"
           /\ (b # {} => PrintT(<<"REJECT", i, b>>))
        /\ i' = i
Spec == Init /\ [][Next]_vars
=============================================================================
