----------------------------- MODULE OracleC12 -----------------------------
(* C12: min_spanning_tree (Kruskal element stream) and min_spanning_tree_prim.
   stream = [nodes |-> node weights (= abstract ids) in stream order,
             edges |-> <<source position, target position, weight>>, nodes_first]    *)
EXTENDS GraphTheory, Json, IOUtils, TLC
Recs == ndJsonDeserialize(IOEnv.RECORDS)
VARIABLES i, verdict
vars == <<i, verdict>>
Has(r, f) == f \in DOMAIN r
Ok(o) == o[1] = "ok"

SumW(S, w(_)) == MapThenSumSet(w, S)

\* undirected view of an edge subset T (indices) of g
Sub(g, T) == [n |-> g.n, dir |-> FALSE, E |-> [j \in 1 .. Cardinality(T) |-> g.E[SetToSeq(T)[j]]]]
UG(g) == [n |-> g.n, dir |-> FALSE, E |-> g.E]
IsSpanningForest(g, T) == LET h == Sub(g, T) IN WComps(h) = WComps(UG(g)) /\ ~HasUndCycle(h)
Weight(g, T) == SumW(T, LAMBDA j : Wt(g, j))
\* minimum weight over ALL spanning forests of the component set Comp restricted graph
MinForestWeight(g) ==
    LET k == g.n - Cardinality(WComps(UG(g)))
        cands == {T \in kSubset(k, EIdx(g)) : IsSpanningForest(g, T)}
    IN CHOOSE m \in {Weight(g, T) : T \in cands} : \A T \in cands : m <= Weight(g, T)

\* Minimality without enumeration (cycle property): a spanning forest is minimum iff every edge u-v of the graph
\* already has its endpoints connected by forest edges that are not heavier than it.  Polynomial, and independent of
\* how the implementation builds the forest.  L: the forest's <<u, v, w>> triples.
MinByCycleProperty(g, L) ==
    \A j \in EIdx(g) : Src(g, j) # Tgt(g, j) =>
        LET hw == [n |-> g.n, dir |-> FALSE, E |-> SelectSeq(L, LAMBDA t : t[3] <= Wt(g, j))]
        IN Tgt(g, j) \in WComp(hw, Src(g, j))

\* the stream's edges as abstract <<u, v, w>> triples
StreamEdges(st) == [j \in DOMAIN st.edges |-> <<st.nodes[st.edges[j][1] + 1], st.nodes[st.edges[j][2] + 1], st.edges[j][3]>>]
\* every listed edge is an edge of g with that weight, as multisets (direction ignored when g is undirected storage)
Key(g, t) == IF g.dir \/ t[1] <= t[2] THEN t ELSE <<t[2], t[1], t[3]>>
BagIncluded(g, L) ==
    LET ge == [j \in EIdx(g) |-> Key(g, <<Src(g, j), Tgt(g, j), Wt(g, j)>>)]
        le == [j \in DOMAIN L |-> Key(g, L[j])]
    IN \A x \in SeqRange(le) : Cardinality({j \in DOMAIN le : le[j] = x}) <= Cardinality({j \in DOMAIN ge : ge[j] = x})

ForestOK(g, st, comp, nord) ==      \* comp: the nodes that must be spanned (all nodes, or one component)
    LET L == StreamEdges(st)
        h == [n |-> g.n, dir |-> FALSE, E |-> L]
        gc == [n |-> g.n, dir |-> FALSE, E |-> SelectSeq(g.E, LAMBDA e : e[1] \in comp /\ e[2] \in comp)]
        total == SumW(DOMAIN L, LAMBDA j : L[j][3])
    IN
    /\ st.nodes_first /\ st.nodes = nord                    \* every node, in the graph's order, first
    /\ \A j \in DOMAIN st.edges : st.edges[j][1] < Len(st.nodes) /\ st.edges[j][2] < Len(st.nodes)
    /\ BagIncluded(g, L)
    /\ ~HasUndCycle(h)
    /\ \A j \in DOMAIN L : L[j][1] \in comp /\ L[j][2] \in comp
    /\ \A u \in comp : WComp(h, u) = WComp(UG(g), u)          \* spans every component it must span
    /\ Len(L) = Cardinality(comp) - Cardinality({WComp(UG(g), u) : u \in comp})
    /\ MinByCycleProperty(gc, L)
    /\ (Len(gc.E) <= 12 => total = MinForestWeight(gc))     \* small graphs: also against ALL spanning forests

\* a large input that IS a tree (marked by the harness, which generates only stars and paths at that size): the
\* unique spanning tree is the whole edge set, so the cheap rule is: all nodes first and in order, exactly the n - 1
\* edges of g as a multiset (checked through inclusion + count + total weight)
TreeOK(g, st, nord) ==
    LET L == StreamEdges(st) IN
    /\ st.nodes_first /\ st.nodes = nord
    /\ \A j \in DOMAIN st.edges : st.edges[j][1] < Len(st.nodes) /\ st.edges[j][2] < Len(st.nodes)
    /\ Len(L) = g.n - 1 /\ Len(g.E) = g.n - 1
    /\ BagIncluded(g, L)
    /\ SumW(DOMAIN L, LAMBDA j : L[j][3]) = SumW(EIdx(g), LAMBDA j : Wt(g, j))

\* the node-induced subgraph on the even nodes (what NodeFiltered by parity presents)
NFeven(g) == [g EXCEPT !.E = SelectSeq(g.E, LAMBDA e : e[1] % 2 = 0 /\ e[2] % 2 = 0)]
EvenNodes(g) == {v \in Nodes(g) : v % 2 = 0}

Bad(r) ==
    LET g == [n |-> r.n, dir |-> r.dir, E |-> r.E]
        chk(f, P(_)) == IF Has(r, f) /\ ~(Ok(r[f]) /\ P(r[f][2])) THEN {f} ELSE {}
    IN
    (IF Has(r, "mst_nf") /\ ~(Ok(r.mst_nf) /\ ForestOK(NFeven(g), r.mst_nf[2], EvenNodes(g), r.nord_nf[2])) THEN {"mst_nf"} ELSE {})
    \cup
    IF Has(r, "tree")
    THEN chk("mst", LAMBDA v : TreeOK(g, v, r.nord[2])) \cup chk("prim", LAMBDA v : TreeOK(g, v, r.nord[2]))
    ELSE chk("mst", LAMBDA v : ForestOK(g, v, Nodes(g), r.nord[2]))
         \cup chk("prim", LAMBDA v : ForestOK(g, v, WComp(UG(g), r.nord[2][1]), r.nord[2]))

Init == i \in 1 .. Len(Recs) /\ verdict = "pending"
Next == /\ verdict = "pending"
        /\ LET b == Bad(Recs[i]) IN
           /\ verdict' = IF b = {} THEN "ok" ELSE "bad"
           /\ (b # {} => PrintT(<<"REJECT", i, b>>))
        /\ i' = i
Spec == Init /\ [][Next]_vars
=============================================================================
