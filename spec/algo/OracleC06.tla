----------------------------- MODULE OracleC06 -----------------------------
(* C06: every graph type and adaptor shows one consistent graph through the visit traits.
   A record holds one abstract graph g, one encoding of it, one adaptor stack and the result of every
   trait method that the (adapted) type implements.  The oracle computes the graph the adaptor must
   present - g itself, reversed, symmetrised, node-induced, edge-restricted - and checks every
   recorded method against it.  Rows of per-node tables are indexed by abstract node id.          *)
EXTENDS Integers, Sequences, FiniteSets, SequencesExt, Json, IOUtils, TLC
Recs == ndJsonDeserialize(IOEnv.RECORDS)
VARIABLES i, verdict
vars == <<i, verdict>>
Has(r, f) == f \in DOMAIN r
Ok(o) == o[1] = "ok"
SeqRange(s) == {s[k] : k \in DOMAIN s}
NoDup(s) == Len(s) = Cardinality(SeqRange(s))
SeqBag(s) == [x \in SeqRange(s) |-> Cardinality({k \in DOMAIN s : s[k] = x})]
IdxBag(f(_), S) == LET vals == {f(x) : x \in S} IN [v \in vals |-> Cardinality({x \in S : f(x) = v})]

(* ---- the graph an adaptor stack must present: h = [V, dir, E] ---- *)
Base(r) == [V |-> 0 .. (r.n - 1), dir |-> r.dir, E |-> r.E]
Rev(h) == [h EXCEPT !.E = [j \in DOMAIN h.E |-> <<h.E[j][2], h.E[j][1], h.E[j][3]>>]]
Und(h) == [h EXCEPT !.dir = FALSE]
NF(h, p) == LET V2 == {v \in h.V : v % 2 = p} IN
            [V |-> V2, dir |-> h.dir, E |-> SelectSeq(h.E, LAMBDA e : e[1] \in V2 /\ e[2] \in V2)]
EF(h, th) == [h EXCEPT !.E = SelectSeq(h.E, LAMBDA e : e[3] >= th)]
Effective(r) ==
    LET b == Base(r)   a == r.adaptor   p == r.pred IN
    CASE a \in {"id", "frozen", "rev_rev"} -> b
      [] a = "rev" -> Rev(b)
      [] a = "und" -> Und(b)
      [] a = "nf" -> NF(b, p.parity)
      [] a \in {"rev_nf", "nf_rev"} -> Rev(NF(b, p.parity))
      [] a = "ef" -> EF(b, p.min_w)
      [] a \in {"rev_ef", "ef_rev"} -> Rev(EF(b, p.min_w))
      [] a = "nf_ef" -> NF(EF(b, p.min_w), p.parity)

(* ---- what each trait method must return on h ---- *)
EI(h) == DOMAIN h.E
Other(h, j, a) == IF h.E[j][1] = a THEN h.E[j][2] ELSE h.E[j][1]
OutIx(h, a) == {j \in EI(h) : h.E[j][1] = a} \cup (IF h.dir THEN {} ELSE {j \in EI(h) : h.E[j][2] = a})
InIx(h, a)  == {j \in EI(h) : h.E[j][2] = a} \cup (IF h.dir THEN {} ELSE {j \in EI(h) : h.E[j][1] = a})
Adjacent(h, a, b) == \E j \in EI(h) : (h.E[j][1] = a /\ h.E[j][2] = b) \/ (~h.dir /\ h.E[j][1] = b /\ h.E[j][2] = a)
\* an edge reference, canonical for undirected graphs (either orientation may be reported)
Key(h, t) == IF h.dir \/ t[1] <= t[2] THEN t ELSE <<t[2], t[1], t[3]>>

NbrOK(h, a, s, ix) == LET f(j) == Other(h, j, a) IN SeqBag(s) = IdxBag(f, ix)
\* edges from a: the queried node is the source (Outgoing) resp. the target (Incoming) when undirected
EdgesOK(h, a, s, d) ==
    LET ix == IF d = 0 THEN OutIx(h, a) ELSE InIx(h, a)
        f(j) == IF h.dir THEN <<h.E[j][1], h.E[j][2], h.E[j][3]>>
                ELSE IF d = 0 THEN <<a, Other(h, j, a), h.E[j][3]>> ELSE <<Other(h, j, a), a, h.E[j][3]>>
    IN SeqBag(s) = IdxBag(f, ix)

(* What petgraph's UndirectedAdaptor actually presents (a recorded finding, see KNOWN_FINDINGS.json):
   neighbors(a) / edges(a) are the incoming list chained with the outgoing list of the inner graph,
   so a self-loop - and every edge when the inner graph is already undirected - appears twice, and the
   incoming edges are not re-oriented (their target is the queried node).  A result that is exactly
   this is reported under its own label, anything else as an ordinary violation.                 *)
UndQuirkNbr(b, a, s) ==
    LET f(j) == Other(b, j, a)
        bi == IdxBag(f, InIx(b, a))   bo == IdxBag(f, OutIx(b, a))
        dom == DOMAIN bi \cup DOMAIN bo
        sum == [x \in dom |-> (IF x \in DOMAIN bi THEN bi[x] ELSE 0) + (IF x \in DOMAIN bo THEN bo[x] ELSE 0)]
    IN SeqBag(s) = sum
UndQuirkEdges(b, a, s) ==
    LET fi(j) == IF b.dir THEN <<b.E[j][1], b.E[j][2], b.E[j][3]>> ELSE <<Other(b, j, a), a, b.E[j][3]>>
        fo(j) == IF b.dir THEN <<b.E[j][1], b.E[j][2], b.E[j][3]>> ELSE <<a, Other(b, j, a), b.E[j][3]>>
        bi == IdxBag(fi, InIx(b, a))   bo == IdxBag(fo, OutIx(b, a))
        dom == DOMAIN bi \cup DOMAIN bo
        sum == [x \in dom |-> (IF x \in DOMAIN bi THEN bi[x] ELSE 0) + (IF x \in DOMAIN bo THEN bo[x] ELSE 0)]
    IN SeqBag(s) = sum

Bad(r) ==
    LET h == Effective(r)
        row(t, a) == t[a + 1]
        \* every node of the underlying graph is queried: a node the adaptor filters out has no incident edge in the
        \* graph it presents, so every per-node query at it must come back empty (its index sets are empty in h)
        AllV == 0 .. (r.n - 1)
        chk(f, P(_)) == IF Has(r, f) /\ ~(Ok(r[f]) /\ P(r[f][2])) THEN {f} ELSE {}
    IN
    chk("nodes", LAMBDA v : NoDup(v) /\ SeqRange(v) = h.V)
    \cup chk("noderefs", LAMBDA v : NoDup(v) /\ SeqRange(v) = h.V)
    \cup chk("erefs", LAMBDA v : LET f(j) == Key(h, h.E[j]) IN
                                  SeqBag([k \in DOMAIN v |-> Key(h, v[k])]) = IdxBag(f, EI(h)))
    \cup chk("nc", LAMBDA v : v = Cardinality(h.V))
    \cup chk("ec", LAMBDA v : v = Len(h.E))
    \cup chk("index", LAMBDA v : /\ \A a \in 0 .. (r.n - 1) : v.to[a + 1] < v.bound /\ v.back[a + 1] = a
                                 /\ Cardinality(SeqRange(v.to)) = r.n
                                 /\ (Has(r, "compact") => SeqRange(v.to) = 0 .. (r.n - 1)))
    \cup (IF r.adaptor = "und" /\ Has(r, "nbr") /\ Ok(r.nbr)
             /\ ~(\A a \in AllV : NbrOK(h, a, row(r.nbr[2], a), OutIx(h, a)))
             /\ (\A a \in AllV : UndQuirkNbr(Base(r), a, row(r.nbr[2], a)))
          THEN {"und_quirk_nbr"}
          ELSE chk("nbr", LAMBDA v : \A a \in AllV : NbrOK(h, a, row(v, a), OutIx(h, a))))
    \cup chk("nbr_out", LAMBDA v : \A a \in AllV : NbrOK(h, a, row(v, a), OutIx(h, a)))
    \cup chk("nbr_in", LAMBDA v : \A a \in AllV : NbrOK(h, a, row(v, a), InIx(h, a)))
    \cup (IF r.adaptor = "und" /\ Has(r, "edges") /\ Ok(r.edges)
             /\ ~(\A a \in AllV : EdgesOK(h, a, row(r.edges[2], a), 0))
             /\ (\A a \in AllV : UndQuirkEdges(Base(r), a, row(r.edges[2], a)))
          THEN {"und_quirk_edges"}
          ELSE chk("edges", LAMBDA v : \A a \in AllV : EdgesOK(h, a, row(v, a), 0)))
    \* identity of the listed edges (index-like edge ids only; the UndirectedAdaptor finding doubles rows; an
    \* undirected Csr stores an edge in both rows under two different edge indices, by design)
    \cup (IF r.enc \in {"graph", "stable", "csr", "list"} /\ r.adaptor # "und" /\ (r.enc = "csr" => r.dir)
          THEN chk("eids", LAMBDA v : \A a \in AllV : LET rw == row(v, a) IN
                                        /\ \A k \in DOMAIN rw : rw[k][1] >= 0 /\ rw[k][2]
                                        /\ NoDup([k \in DOMAIN rw |-> rw[k][1]]))
          ELSE {})
    \* ... and in every type with index-like ids an id appears once per row (also in an undirected Csr)
    \cup (IF r.enc \in {"graph", "stable", "csr", "list"} /\ r.adaptor # "und"
          THEN chk("eids", LAMBDA v : \A a \in AllV : \A k \in DOMAIN row(v, a) : ~row(v, a)[k][3])
          ELSE {})
    \cup chk("edges_out", LAMBDA v : \A a \in AllV : EdgesOK(h, a, row(v, a), 0))
    \cup chk("edges_in", LAMBDA v : \A a \in AllV : EdgesOK(h, a, row(v, a), 1))
    \cup chk("adj", LAMBDA v : \A a, b \in h.V : v[a + 1][b + 1] = Adjacent(h, a, b))
    \cup chk("is_directed", LAMBDA v : v = h.dir)

Init == i \in 1 .. Len(Recs) /\ verdict = "pending"
Next == /\ verdict = "pending"
        /\ LET b == Bad(Recs[i]) IN
           /\ verdict' = IF b = {} THEN "ok" ELSE "bad"
           /\ (b # {} => PrintT(<<"REJECT", i, b>>))
        /\ i' = i
Spec == Init /\ [][Next]_vars
=============================================================================
