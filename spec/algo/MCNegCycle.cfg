SPECIFICATION Spec
CONSTANTS N = 3
  WNeg = 2
  WPos = 1
  MaxEdges = 4
  Mutant = "none"
INVARIANT VerdictOK
CHECK_DEADLOCK FALSE
