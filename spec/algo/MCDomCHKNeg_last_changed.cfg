SPECIFICATION Spec
CONSTANTS N = 5
  MaxEdges = 7
  Loops = FALSE
  Mutant = "last_changed"
INVARIANT Inv
CHECK_DEADLOCK FALSE
