----------------------------- MODULE OracleC09 -----------------------------
(* C09: SCC, connectivity, cycle detection, toposort, condensation - judged by
   definition.  Each record holds one abstract graph, one encoding of it and the
   outputs of all C09 algorithms on that encoding (node ids already mapped back
   to abstract ids by the harness).  out = <<"ok", value>> | <<"panic">>.       *)
EXTENDS GraphTheory, Json, IOUtils, TLC

Recs == ndJsonDeserialize(IOEnv.RECORDS)

VARIABLES i, verdict
vars == <<i, verdict>>

Has(r, f) == f \in DOMAIN r
Ok(o) == o[1] = "ok"

SccOK(g, R, L) ==        \* partition into SCCs, listed so that no component reaches a later one
    /\ IsPartitionList(g, L, SCCsOf(g, R))
    /\ \A a, b \in DOMAIN L : a < b => ~(\E u \in SeqRange(L[a]), v \in SeqRange(L[b]) : v \in R[u])

TopoOK(g, o) ==
    IF HasDirCycle(g) THEN o[1] = "cycle" /\ o[2] \in Nodes(g) /\ o[2] \in ReachPlus(g, o[2])
    ELSE o[1] = "order" /\ IsTopoOrder(g, o[2])

\* condensation: nodes[k] = members of component k; edges = <<ck, cl, w>>
CondOK(g, R, c, acyclic) ==
    LET comp(v) == CHOOSE k \in DOMAIN c.nodes : v \in SeqRange(c.nodes[k])
        mapped == [j \in EIdx(g) |-> <<comp(Src(g, j)), comp(Tgt(g, j)), Wt(g, j)>>]
        cg == [n |-> Len(c.nodes), dir |-> g.dir, E |-> [j \in DOMAIN c.edges |-> <<c.edges[j][1] - 1, c.edges[j][2] - 1, c.edges[j][3]>>]]
    IN
    /\ IsPartitionList(g, c.nodes, SCCsOf(g, R))
    /\ IF ~acyclic
       THEN \* every original edge mapped to its components, as a multiset
            LET bagA == [x \in SeqRange(mapped) |-> Cardinality({j \in DOMAIN mapped : mapped[j] = x})]
                ce == [j \in DOMAIN c.edges |-> <<c.edges[j][1], c.edges[j][2], c.edges[j][3]>>]
                bagB == [x \in SeqRange(ce) |-> Cardinality({j \in DOMAIN ce : ce[j] = x})]
            IN bagA = bagB
       ELSE \* simple acyclic graph with exactly the inter-component edge set
            LET want == {<<mapped[j][1], mapped[j][2]>> : j \in {x \in DOMAIN mapped : mapped[x][1] # mapped[x][2]}}
                wantU == IF g.dir THEN want ELSE want \cup {<<p[2], p[1]>> : p \in want}
                got == {<<c.edges[j][1], c.edges[j][2]>> : j \in DOMAIN c.edges}
                gotU == IF g.dir THEN got ELSE got \cup {<<p[2], p[1]>> : p \in got}
            IN /\ gotU = wantU
               /\ Len(c.edges) = Cardinality(IF g.dir THEN got ELSE {{p[1], p[2]} : p \in got})   \* no duplicates
               /\ \A j \in DOMAIN c.edges : c.edges[j][1] # c.edges[j][2]
               /\ (g.dir => ~HasDirCycle(cg))
               \* the kept weight is the weight of some original edge between those components
               /\ \A j \in DOMAIN c.edges : \E x \in DOMAIN mapped :
                      mapped[x][3] = c.edges[j][3] /\ {mapped[x][1], mapped[x][2]} = {c.edges[j][1], c.edges[j][2]}

\* the set of fields of record r whose value is wrong
Bad(r) ==
    LET g == [n |-> r.n, dir |-> r.dir, E |-> r.E]
        R == ReachMap(g)
        chk(f, P(_)) == IF Has(r, f) /\ ~(Ok(r[f]) /\ P(r[f][2])) THEN {f} ELSE {}
    IN
    chk("kos", LAMBDA v : SccOK(g, R, v))
    \cup chk("sccdep", LAMBDA v : SccOK(g, R, v))
    \cup chk("tar", LAMBDA v : SccOK(g, R, v))
    \cup chk("trun", LAMBDA v : /\ SccOK(g, R, v.sccs)
                                 /\ v.first = v.sccs          \* a TarjanScc object can be re-run
                                 \* node_component_index: constant on each class, distinct across classes
                                 /\ \A a, b \in Nodes(g) : (v.cidx[a + 1] = v.cidx[b + 1]) <=> (a \in R[b] /\ b \in R[a]))
    \cup chk("cc", LAMBDA v : v = Cardinality(WComps(g)))
    \cup chk("hp", LAMBDA v : \A a, b \in Nodes(g) : v[a + 1][b + 1] = (b \in R[a]))
    \cup chk("hp2", LAMBDA v : \A a, b \in Nodes(g) : v[a + 1][b + 1] = (b \in R[a]))
    \cup chk("hp3", LAMBDA v : \A a, b \in Nodes(g) : v[a + 1][b + 1] = (b \in R[a]))
    \cup chk("hp4", LAMBDA v : \A a, b \in Nodes(g) : v[a + 1][b + 1] = (b \in R[a]))   \* workspace grown from a smaller, used graph
    \cup chk("cycd", LAMBDA v : v = HasDirCycle(g))
    \cup chk("cycu", LAMBDA v : v = HasUndCycle(g))
    \cup chk("bip", LAMBDA v : \A s \in Nodes(g) : v[s + 1] = Bipartite(g, s))
    \cup chk("topo", LAMBDA v : TopoOK(g, v))
    \cup chk("topo2", LAMBDA v : TopoOK(g, v))
    \cup chk("topo3", LAMBDA v : TopoOK(g, v))
    \cup chk("topo4", LAMBDA v : TopoOK(g, v))
    \cup chk("cond", LAMBDA v : CondOK(g, R, v, FALSE))
    \cup chk("conda", LAMBDA v : CondOK(g, R, v, TRUE))

Init == i \in 1 .. Len(Recs) /\ verdict = "pending"
Next == /\ verdict = "pending"
        /\ LET b == Bad(Recs[i]) IN
           /\ verdict' = IF b = {} THEN "ok" ELSE "bad"
           /\ (b # {} => PrintT(<<"REJECT", i, b>>))
        /\ i' = i
Spec == Init /\ [][Next]_vars
=============================================================================
