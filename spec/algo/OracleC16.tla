----------------------------- MODULE OracleC16 -----------------------------
(* C16: dominators (simple_fast) and articulation points by their path-based definitions. *)
EXTENDS GraphTheory, Json, IOUtils, TLC
Recs == ndJsonDeserialize(IOEnv.RECORDS)
VARIABLES i, verdict
vars == <<i, verdict>>
Has(r, f) == f \in DOMAIN r
Ok(o) == o[1] = "ok"

\* g without node a (edges touching a dropped; node ids kept)
Without(g, a) == [n |-> g.n, dir |-> g.dir, E |-> SelectSeq(g.E, LAMBDA e : e[1] # a /\ e[2] # a)]
\* A dominates B (w.r.t. root): B reachable, and every path root -> B passes through A
Dominates(g, root, A, B) ==
    /\ B \in ReachFrom(g, root)
    /\ (A = B \/ A = root \/ B \notin ReachFrom(Without(g, A), root))
DomSet(g, root, B) == {A \in Nodes(g) : Dominates(g, root, A, B)}

DomOK(g, d) ==
    LET root == d.root
        reach == ReachFrom(g, root)
        SD(B) == DomSet(g, root, B) \ {B}
        \* the immediate dominator: the strict dominator that all other strict dominators dominate
        Idom(B) == CHOOSE A \in SD(B) : \A X \in SD(B) : Dominates(g, root, X, A)
    IN
    \A B \in Nodes(g) :
        IF B \notin reach
        THEN d.doms[B + 1] = <<"none">> /\ d.sdoms[B + 1] = <<"none">> /\ d.idom[B + 1] = -1
        ELSE /\ d.doms[B + 1][1] = "some" /\ SeqRange(d.doms[B + 1][2]) = DomSet(g, root, B)
             /\ Len(d.doms[B + 1][2]) = Cardinality(DomSet(g, root, B))
             /\ d.sdoms[B + 1][1] = "some" /\ SeqRange(d.sdoms[B + 1][2]) = SD(B)
             /\ Len(d.sdoms[B + 1][2]) = Cardinality(SD(B))
             /\ d.idom[B + 1] = (IF B = root THEN -1 ELSE Idom(B))
             /\ SeqRange(d.idby[B + 1]) = {X \in reach \ {root} : Idom(X) = B}
             /\ Len(d.idby[B + 1]) = Cardinality({X \in reach \ {root} : Idom(X) = B})

\* v is an articulation point iff removing it increases the number of connected components
NComp(g, alive) == Cardinality({WComp(g, u) \cap alive : u \in alive})
ArtSet(g) == {v \in Nodes(g) : NComp(Without(g, v), Nodes(g) \ {v}) > NComp(g, Nodes(g))}

Bad(r) ==
    LET g == [n |-> r.n, dir |-> r.dir, E |-> r.E]
        chk(f, P(_)) == IF Has(r, f) /\ ~(Ok(r[f]) /\ P(r[f][2])) THEN {f} ELSE {}
    IN
    chk("dom", LAMBDA v : \A j \in DOMAIN v : v[j].root = j - 1 /\ DomOK(g, v[j]))
    \cup chk("art", LAMBDA v : SeqRange(v) = ArtSet(g) /\ Len(v) = Cardinality(ArtSet(g)))

Init == i \in 1 .. Len(Recs) /\ verdict = "pending"
Next == /\ verdict = "pending"
        /\ LET b == Bad(Recs[i]) IN
           /\ verdict' = IF b = {} THEN "ok" ELSE "bad"
           /\ (b # {} => PrintT(<<"REJECT", i, b>>))
        /\ i' = i
Spec == Init /\ [][Next]_vars
=============================================================================
