----------------------------- MODULE OracleC16 -----------------------------
(* C16: dominators (simple_fast) and articulation points by their path-based definitions. *)
EXTENDS GraphTheory, Json, IOUtils, TLC
Recs == ndJsonDeserialize(IOEnv.RECORDS)
VARIABLES i, verdict
vars == <<i, verdict>>
Has(r, f) == f \in DOMAIN r
Ok(o) == o[1] = "ok"

\* g without node a (edges touching a dropped; node ids kept)
Without(g, a) == [n |-> g.n, dir |-> g.dir, E |-> SelectSeq(g.E, LAMBDA e : e[1] # a /\ e[2] # a)]
\* A dominates B (w.r.t. root): B reachable, and every path root -> B passes through A,
\* i.e. B is no longer reachable once A is deleted.  RA[A] = nodes reachable from the root without A.
DomOK(g, d) ==
    LET root == d.root
        reach == ReachFrom(g, root)
        RA == TLCEval([A \in Nodes(g) |-> IF A = root THEN {} ELSE ReachFrom(Without(g, A), root)])
        Dominates(A, B) == B \in reach /\ (A = B \/ B \notin RA[A])
        DomSet(B) == {A \in Nodes(g) : Dominates(A, B)}
        DS == TLCEval([B \in Nodes(g) |-> DomSet(B)])
        SD(B) == DS[B] \ {B}
        \* the immediate dominator: the strict dominator that all other strict dominators dominate
        Idom(B) == CHOOSE A \in SD(B) : \A X \in SD(B) : X \in DS[A]
        ID == TLCEval([B \in reach \ {root} |-> Idom(B)])
    IN
    \A B \in Nodes(g) :
        IF B \notin reach
        THEN d.doms[B + 1] = <<"none">> /\ d.sdoms[B + 1] = <<"none">> /\ d.idom[B + 1] = -1
        ELSE /\ d.doms[B + 1][1] = "some" /\ SeqRange(d.doms[B + 1][2]) = DS[B]
             /\ Len(d.doms[B + 1][2]) = Cardinality(DS[B])
             /\ d.sdoms[B + 1][1] = "some" /\ SeqRange(d.sdoms[B + 1][2]) = SD(B)
             /\ Len(d.sdoms[B + 1][2]) = Cardinality(SD(B))
             /\ d.idom[B + 1] = (IF B = root THEN -1 ELSE ID[B])
             /\ SeqRange(d.idby[B + 1]) = {X \in reach \ {root} : ID[X] = B}
             /\ Len(d.idby[B + 1]) = Cardinality({X \in reach \ {root} : ID[X] = B})

\* v is an articulation point iff removing it increases the number of connected components
NComp(g, alive) == Cardinality({WComp(g, u) \cap alive : u \in alive})
ArtSet(g) == {v \in Nodes(g) : NComp(Without(g, v), Nodes(g) \ {v}) > NComp(g, Nodes(g))}

Bad(r) ==
    LET g == [n |-> r.n, dir |-> r.dir, E |-> r.E]
        chk(f, P(_)) == IF Has(r, f) /\ ~(Ok(r[f]) /\ P(r[f][2])) THEN {f} ELSE {}
    IN
    chk("dom", LAMBDA v : \A j \in DOMAIN v : v[j].root = j - 1 /\ DomOK(g, v[j]))   \* roots 0..Len(v)-1
    \cup chk("art", LAMBDA v : SeqRange(v) = ArtSet(g) /\ Len(v) = Cardinality(ArtSet(g)))

Init == i \in 1 .. Len(Recs) /\ verdict = "pending"
Next == /\ verdict = "pending"
        /\ LET b == Bad(Recs[i]) IN
           /\ verdict' = IF b = {} THEN "ok" ELSE "bad"
           /\ (b # {} => PrintT(<<"REJECT", i, b>>))
        /\ i' = i
Spec == Init /\ [][Next]_vars
=============================================================================
