----------------------------- MODULE StableImpl -----------------------------
(* C02, implementation-shaped: StableGraph as coded in src/graph_impl/stable_graph/mod.rs.
   nodes[i] = [w, n0, n1]: weight (-1 = vacant) and next[0], next[1].  For a live node these are the heads
   of its outgoing / incoming edge lists; for a vacant node they thread the doubly linked free-node list
   (n0 = next free, n1 = previous free).  edges[e] = [w, s, t, n0, n1, k]: next[0] / next[1] = next edge
   in the source's out-list / the target's in-list; a vacant edge keeps the singly linked free-edge list
   in n0.  END = MaxIxC is the end() sentinel.  k is a ghost insertion stamp (for the refinement map).
   TLC checks: the structural invariants below in every reachable state (this is check_free_lists plus
   the adjacency-list well-formedness, stated once), and refinement of StableAbs.
   ReverseTouchesVacant = TRUE reproduces the reverse() shipped before commit 672bf88; the free-list
   invariant then fails (run by the self-test as a negative configuration).                         *)
EXTENDS Integers, Sequences, FiniteSets, SequencesExt, TLC

CONSTANTS MaxIxC, W, ReverseTouchesVacant
END == MaxIxC

VARIABLES nodes, edges, free_node, free_edge, node_count, edge_count, dir, stamp, ret
ivars == <<nodes, edges, free_node, free_edge, node_count, edge_count, dir, stamp, ret>>

NLive(i) == i >= 0 /\ i < Len(nodes) /\ nodes[i + 1].w # -1
ELive(e) == e >= 0 /\ e < Len(edges) /\ edges[e + 1].w # -1
Nd(i) == nodes[i + 1]
Ed(e) == edges[e + 1]
VacNode(nx, pv) == [w |-> -1, n0 |-> nx, n1 |-> pv]
VacEdge(nx) == [w |-> -1, s |-> END, t |-> END, n0 |-> nx, n1 |-> END, k |-> -1]

Init == /\ nodes = <<>> /\ edges = <<>> /\ free_node = END /\ free_edge = END
        /\ node_count = 0 /\ edge_count = 0 /\ dir \in BOOLEAN /\ stamp = 0 /\ ret = <<"s", "ok">>

UnchAll == UNCHANGED <<nodes, edges, free_node, free_edge, node_count, edge_count, dir, stamp>>

(* try_add_node *)
AddNode(w) ==
    IF free_node # END
    THEN \* occupy_vacant_node(free_node)
         LET i == free_node   prev == Nd(i).n1   nxt == Nd(i).n0
             n1 == [nodes EXCEPT ![i + 1] = [w |-> w, n0 |-> END, n1 |-> END]]
             n2 == IF prev # END THEN [n1 EXCEPT ![prev + 1].n0 = nxt] ELSE n1
             n3 == IF nxt # END THEN [n2 EXCEPT ![nxt + 1].n1 = prev] ELSE n2
         IN /\ nodes' = n3 /\ free_node' = nxt /\ node_count' = node_count + 1 /\ ret' = <<"ok_i", i>>
            /\ UNCHANGED <<edges, free_edge, edge_count, dir, stamp>>
    ELSE IF Len(nodes) = END THEN ret' = <<"err_s", "NodeIxLimit">> /\ UnchAll
    ELSE /\ nodes' = Append(nodes, [w |-> w, n0 |-> END, n1 |-> END]) /\ node_count' = node_count + 1
         /\ ret' = <<"ok_i", Len(nodes)>> /\ UNCHANGED <<edges, free_node, free_edge, edge_count, dir, stamp>>

(* try_add_edge (with the endpoint validation before the free slot is taken) *)
Missing(a, b) == IF a >= Len(nodes) \/ b >= Len(nodes) THEN (IF a > b THEN a ELSE b)
                 ELSE IF Nd(a).w = -1 THEN a ELSE IF Nd(b).w = -1 THEN b ELSE -1
Link(ns, a, b, e) == \* head insertion into a's out-list and b's in-list
    IF a = b THEN [ns EXCEPT ![a + 1].n0 = e, ![a + 1].n1 = e]
    ELSE [ns EXCEPT ![a + 1].n0 = e, ![b + 1].n1 = e]
AddEdge(a, b, w) ==
    IF free_edge # END
    THEN IF Missing(a, b) # -1 THEN ret' = <<"err_i", Missing(a, b)>> /\ UnchAll
         ELSE LET e == free_edge IN
              /\ edges' = [edges EXCEPT ![e + 1] = [w |-> w, s |-> a, t |-> b, n0 |-> Nd(a).n0, n1 |-> Nd(b).n1, k |-> stamp]]
              /\ free_edge' = Ed(e).n0 /\ nodes' = Link(nodes, a, b, e)
              /\ edge_count' = edge_count + 1 /\ stamp' = stamp + 1 /\ ret' = <<"ok_i", e>>
              /\ UNCHANGED <<free_node, node_count, dir>>
    ELSE IF Len(edges) = END THEN ret' = <<"err_s", "EdgeIxLimit">> /\ UnchAll
    ELSE IF Missing(a, b) # -1 THEN ret' = <<"err_i", Missing(a, b)>> /\ UnchAll
    ELSE LET e == Len(edges) IN
         /\ edges' = Append(edges, [w |-> w, s |-> a, t |-> b, n0 |-> Nd(a).n0, n1 |-> Nd(b).n1, k |-> stamp])
         /\ nodes' = Link(nodes, a, b, e)
         /\ edge_count' = edge_count + 1 /\ stamp' = stamp + 1 /\ ret' = <<"ok_i", e>>
         /\ UNCHANGED <<free_node, free_edge, node_count, dir>>

(* Graph::change_edge_links: unlink edge e from the out-list of its source (d = 0) / in-list of its target *)
RECURSIVE Relink(_, _, _, _, _)
\* walk the list of direction d starting at edge cur; replace the link to e by nxt
Relink(es, cur, e, nxt, d) ==
    IF cur = END THEN es
    ELSE LET lk == IF d = 0 THEN es[cur + 1].n0 ELSE es[cur + 1].n1 IN
         IF lk = e THEN (IF d = 0 THEN [es EXCEPT ![cur + 1].n0 = nxt] ELSE [es EXCEPT ![cur + 1].n1 = nxt])
         ELSE Relink(es, lk, e, nxt, d)
Unlink(ns, es, e) ==   \* returns <<nodes, edges>> with e removed from both lists
    LET a == es[e + 1].s   b == es[e + 1].t
        ns1 == IF ns[a + 1].n0 = e THEN [ns EXCEPT ![a + 1].n0 = es[e + 1].n0] ELSE ns
        es1 == IF ns[a + 1].n0 = e THEN es ELSE Relink(es, ns[a + 1].n0, e, es[e + 1].n0, 0)
        ns2 == IF ns1[b + 1].n1 = e THEN [ns1 EXCEPT ![b + 1].n1 = es[e + 1].n1] ELSE ns1
        es2 == IF ns1[b + 1].n1 = e THEN es1 ELSE Relink(es1, ns1[b + 1].n1, e, es[e + 1].n1, 1)
    IN <<ns2, es2>>
\* remove_edge on structures ns/es with free list head fe: returns <<nodes, edges, free_edge>>
RemoveEdgeOn(ns, es, fe, e) ==
    LET u == Unlink(ns, es, e) IN <<u[1], [u[2] EXCEPT ![e + 1] = VacEdge(fe)], e>>
RemoveEdge(e) ==
    IF ~ELive(e) THEN ret' = <<"none">> /\ UnchAll
    ELSE LET r == RemoveEdgeOn(nodes, edges, free_edge, e) IN
         /\ nodes' = r[1] /\ edges' = r[2] /\ free_edge' = r[3] /\ edge_count' = edge_count - 1
         /\ ret' = <<"i", Ed(e).w>> /\ UNCHANGED <<free_node, node_count, dir, stamp>>

(* remove_node: the weight is taken first, then the out-list and the in-list are emptied edge by edge *)
RECURSIVE Drain(_, _, _, _, _, _)
Drain(ns, es, fe, a, d, cnt) ==       \* returns <<nodes, edges, free_edge, removed count>>
    LET head == IF d = 0 THEN ns[a + 1].n0 ELSE ns[a + 1].n1 IN
    IF head = END THEN <<ns, es, fe, cnt>>
    ELSE LET r == RemoveEdgeOn(ns, es, fe, head) IN Drain(r[1], r[2], r[3], a, d, cnt + 1)
RemoveNode(a) ==
    IF ~NLive(a) THEN ret' = <<"none">> /\ UnchAll
    ELSE LET n0s == [nodes EXCEPT ![a + 1].w = -1]
             d0 == Drain(n0s, edges, free_edge, a, 0, 0)
             d1 == Drain(d0[1], d0[2], d0[3], a, 1, d0[4])
             ns1 == [d1[1] EXCEPT ![a + 1] = VacNode(free_node, END)]
             ns2 == IF free_node # END THEN [ns1 EXCEPT ![free_node + 1].n1 = a] ELSE ns1
         IN /\ nodes' = ns2 /\ edges' = d1[2] /\ free_edge' = d1[3] /\ free_node' = a
            /\ node_count' = node_count - 1 /\ edge_count' = edge_count - d1[4]
            /\ ret' = <<"i", Nd(a).w>> /\ UNCHANGED <<dir, stamp>>

(* reverse: swaps endpoints and both link fields of LIVE slots (vacant slots hold free-list links) *)
ReverseI ==
    /\ edges' = [i \in DOMAIN edges |-> IF edges[i].w = -1 /\ ~ReverseTouchesVacant THEN edges[i]
                                        ELSE [edges[i] EXCEPT !.s = edges[i].t, !.t = edges[i].s, !.n0 = edges[i].n1, !.n1 = edges[i].n0]]
    /\ nodes' = [i \in DOMAIN nodes |-> IF nodes[i].w = -1 /\ ~ReverseTouchesVacant THEN nodes[i]
                                        ELSE [nodes[i] EXCEPT !.n0 = nodes[i].n1, !.n1 = nodes[i].n0]]
    /\ ret' = <<"s", "ok">> /\ UNCHANGED <<free_node, free_edge, node_count, edge_count, dir, stamp>>

(* clear_edges: drops the edge array and the free-edge list; live nodes lose their list heads *)
ClearEdges ==
    /\ edges' = <<>> /\ free_edge' = END /\ edge_count' = 0
    /\ nodes' = [i \in DOMAIN nodes |-> IF nodes[i].w # -1 THEN [nodes[i] EXCEPT !.n0 = END, !.n1 = END] ELSE nodes[i]]
    /\ ret' = <<"s", "ok">> /\ UNCHANGED <<free_node, node_count, dir, stamp>>

Args == 0 .. MaxIxC
Next == \/ \E w \in W : AddNode(w)
        \/ \E a, b \in Args, w \in W : AddEdge(a, b, w)
        \/ \E e \in Args : RemoveEdge(e) \/ RemoveNode(e)
        \/ ReverseI \/ ClearEdges
Spec == Init /\ [][Next]_ivars

---------------------------------------------------------------------------
(* invariants *)
RECURSIVE Chain(_, _, _, _)
\* follow `step` from x for at most fuel steps; returns the sequence of visited indices (or <<-1>> on overrun)
Chain(x, step(_), fuel, acc) ==
    IF x = END THEN acc ELSE IF fuel = 0 THEN <<-1>> ELSE Chain(step(x), step, fuel - 1, Append(acc, x))

FreeNodes == Chain(free_node, LAMBDA i : IF i < Len(nodes) THEN Nd(i).n0 ELSE END, Len(nodes) + 1, <<>>)
FreeEdges == Chain(free_edge, LAMBDA e : IF e < Len(edges) THEN Ed(e).n0 ELSE END, Len(edges) + 1, <<>>)
VacantN == {i \in 0 .. (Len(nodes) - 1) : Nd(i).w = -1}
VacantE == {e \in 0 .. (Len(edges) - 1) : Ed(e).w = -1}
SeqSet(s) == {s[i] : i \in DOMAIN s}

\* the free-node list is exactly the vacant slots, each once, with correct back pointers
FreeNodeListOK ==
    /\ SeqSet(FreeNodes) = VacantN /\ Len(FreeNodes) = Cardinality(VacantN)
    /\ \A j \in DOMAIN FreeNodes : Nd(FreeNodes[j]).n1 = (IF j = 1 THEN END ELSE FreeNodes[j - 1])
FreeEdgeListOK == SeqSet(FreeEdges) = VacantE /\ Len(FreeEdges) = Cardinality(VacantE)
CountsOK == node_count = Len(nodes) - Cardinality(VacantN) /\ edge_count = Len(edges) - Cardinality(VacantE)

OutList(a) == Chain(Nd(a).n0, LAMBDA e : IF e < Len(edges) THEN Ed(e).n0 ELSE END, Len(edges) + 1, <<>>)
InList(a)  == Chain(Nd(a).n1, LAMBDA e : IF e < Len(edges) THEN Ed(e).n1 ELSE END, Len(edges) + 1, <<>>)
LiveE == {e \in 0 .. (Len(edges) - 1) : Ed(e).w # -1}
\* every live edge is exactly once in the out-list of its source and the in-list of its target; lists end
ListsOK == \A a \in 0 .. (Len(nodes) - 1) : Nd(a).w # -1 =>
    /\ SeqSet(OutList(a)) = {e \in LiveE : Ed(e).s = a} /\ Len(OutList(a)) = Cardinality({e \in LiveE : Ed(e).s = a})
    /\ SeqSet(InList(a)) = {e \in LiveE : Ed(e).t = a} /\ Len(InList(a)) = Cardinality({e \in LiveE : Ed(e).t = a})
\* most recently added first (descending ghost stamp) along every list
OrderOK == \A a \in 0 .. (Len(nodes) - 1) : Nd(a).w # -1 =>
    /\ \A j \in 1 .. (Len(OutList(a)) - 1) : Ed(OutList(a)[j]).k > Ed(OutList(a)[j + 1]).k
    /\ \A j \in 1 .. (Len(InList(a)) - 1) : Ed(InList(a)[j]).k > Ed(InList(a)[j + 1]).k
EndpointsOK == \A e \in LiveE : NLive(Ed(e).s) /\ NLive(Ed(e).t)
Inv == FreeNodeListOK /\ FreeEdgeListOK /\ CountsOK /\ ListsOK /\ OrderOK /\ EndpointsOK

(* refinement: the abstract state is the slot sequences without the links, trailing vacancies trimmed *)
RECURSIVE TrimNd(_)
TrimNd(s) == IF s # <<>> /\ s[Len(s)] = -1 THEN TrimNd(SubSeq(s, 1, Len(s) - 1)) ELSE s
RECURSIVE TrimEd(_)
TrimEd(s) == IF s # <<>> /\ s[Len(s)].w = -1 THEN TrimEd(SubSeq(s, 1, Len(s) - 1)) ELSE s
AbsNd == TrimNd([i \in DOMAIN nodes |-> nodes[i].w])
AbsEd == TrimEd([i \in DOMAIN edges |-> IF edges[i].w = -1 THEN [s |-> -1, t |-> -1, w |-> -1, k |-> -1]
                                         ELSE [s |-> edges[i].s, t |-> edges[i].t, w |-> edges[i].w, k |-> edges[i].k]])
Abs == INSTANCE StableAbs WITH nd <- AbsNd, ed <- AbsEd, maxix <- MaxIxC, pending <- {}
AbsStep ==   \* every implementation step is a step of the abstract spec (or leaves it unchanged)
    \/ \E w \in W, i \in Args : Abs!AddNodeAt(w, i, "ok_i")
    \/ Abs!TryAddNodeFull
    \/ \E a, b, e \in Args, w \in W : Abs!TryAddEdge(a, b, w, e)
    \/ \E e \in Args : Abs!RemoveEdge(e) \/ Abs!RemoveNode(e)
    \/ Abs!ReverseG \/ Abs!ClearEdges
    \/ UNCHANGED <<AbsNd, AbsEd, dir, stamp, ret>>
Refines == [][AbsStep]_ivars
MCView == <<nodes, [i \in DOMAIN edges |-> [edges[i] EXCEPT !.k = Cardinality({j \in DOMAIN edges : edges[j].w # -1 /\ edges[j].k < edges[i].k /\ edges[i].w # -1})]],
            free_node, free_edge, node_count, edge_count, dir, ret>>
=============================================================================
