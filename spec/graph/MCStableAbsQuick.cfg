SPECIFICATION Spec
CONSTANTS W = {1}
          MaxIxC = 2
INVARIANT Inv
PROPERTIES ErrUnchanged FreshIndex
VIEW MCView
CHECK_DEADLOCK FALSE
