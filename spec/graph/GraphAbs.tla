----------------------------- MODULE GraphAbs -----------------------------
(* C01.  petgraph::graph::Graph as a compact-indexed multigraph: live node and
   edge indices are always 0..n-1 and 0..m-1; removal swap-renumbers as
   documented (the last index adopts the removed one).  One action per public
   call.  Left open (nondeterministic) where the documentation leaves it open:
   which of several parallel edges find_edge/update_edge picks, the order in
   which remove_node drops incident edges, iteration order of an undirected
   node, visiting order of retain_*.                                         *)
EXTENDS MGState

CONSTANT MaxIxC        \* index-type limit of the bounded model (the trace specs take it from the trace)

avars == <<nd, ed, dir, maxix, stamp, ret, pending>>

N == Len(nd)
M == Len(ed)
UnchG == UNCHANGED <<nd, ed, dir, maxix, stamp>>
NoPend == pending' = pending

\* Compact: every slot is live
Compact == (\A i \in DOMAIN nd : nd[i] >= 0) /\ (\A i \in DOMAIN ed : ed[i].w >= 0)

SwapRemove(s, i) ==       \* Vec::swap_remove at 0-based i
    LET L == Len(s) IN
    IF i = L - 1 THEN SubSeq(s, 1, L - 1)
    ELSE [j \in 1 .. (L - 1) |-> IF j = i + 1 THEN s[L] ELSE s[j]]

Init == /\ nd = <<>> /\ ed = <<>> /\ stamp = 0 /\ ret = <<"s", "ok">> /\ pending = {}
        /\ dir \in BOOLEAN /\ maxix = MaxIxC

---------------------------------------------------------------------------
TryAddNodeR(w, limit) ==
    IF N = maxix THEN ret' = limit /\ UnchG
    ELSE /\ nd' = Append(nd, w) /\ ret' = <<"ok_i", N>>
         /\ UNCHANGED <<ed, dir, maxix, stamp>>
TryAddNode(w) == TryAddNodeR(w, <<"err_s", "NodeIxLimit">>) /\ NoPend
AddNode(w) == /\ IF N = maxix THEN ret' = <<"panic">> /\ UnchG
                 ELSE nd' = Append(nd, w) /\ ret' = <<"i", N>> /\ UNCHANGED <<ed, dir, maxix, stamp>>
              /\ NoPend

(* outcome class of an edge insertion: the two error conditions may both hold,
   the documentation gives no priority, so either error is then acceptable *)
AddEdgeErrs(a, b) == (IF M = maxix THEN {"EdgeIxLimit"} ELSE {})
                     \cup (IF a < N /\ b < N THEN {} ELSE {"NodeOutBounds"})
DoAddEdge(a, b, w) == /\ ed' = Append(ed, [s |-> a, t |-> b, w |-> w, k |-> stamp])
                      /\ stamp' = stamp + 1
                      /\ UNCHANGED <<nd, dir, maxix>>
TryAddEdge(a, b, w) ==
    /\ IF AddEdgeErrs(a, b) # {}
       THEN (\E x \in AddEdgeErrs(a, b) : ret' = <<"err_s", x>>) /\ UnchG
       ELSE DoAddEdge(a, b, w) /\ ret' = <<"ok_i", M>>
    /\ NoPend
AddEdge(a, b, w) ==
    /\ IF AddEdgeErrs(a, b) # {} THEN ret' = <<"panic">> /\ UnchG
       ELSE DoAddEdge(a, b, w) /\ ret' = <<"i", M>>
    /\ NoPend

\* update_edge: any connecting edge may be the one updated
UpdateExisting(a, b, w, tag) ==
    \E e \in Conn(a, b) : /\ ed' = [ed EXCEPT ![e + 1].w = w]
                          /\ ret' = <<tag, e>>
                          /\ UNCHANGED <<nd, dir, maxix, stamp>>
TryUpdateEdge(a, b, w) ==
    /\ IF Conn(a, b) # {} THEN UpdateExisting(a, b, w, "ok_i")
       ELSE IF AddEdgeErrs(a, b) # {}
            THEN (\E x \in AddEdgeErrs(a, b) : ret' = <<"err_s", x>>) /\ UnchG
            ELSE DoAddEdge(a, b, w) /\ ret' = <<"ok_i", M>>
    /\ NoPend
UpdateEdge(a, b, w) ==
    /\ IF Conn(a, b) # {} THEN UpdateExisting(a, b, w, "i")
       ELSE IF AddEdgeErrs(a, b) # {} THEN ret' = <<"panic">> /\ UnchG
            ELSE DoAddEdge(a, b, w) /\ ret' = <<"i", M>>
    /\ NoPend

RemoveEdgeCore(e) == /\ ed' = SwapRemove(ed, e) /\ UNCHANGED <<nd, dir, maxix, stamp>>
RemoveEdge(e) ==
    /\ IF e >= 0 /\ e < M THEN ret' = <<"i", ed[e + 1].w>> /\ RemoveEdgeCore(e)
       ELSE ret' = <<"none">> /\ UnchG
    /\ NoPend

(* all edge sequences obtainable by swap-removing the edges incident to a, in any order *)
RECURSIVE DropIncident(_, _)
DropIncident(es, a) ==
    LET inc == {i \in 1 .. Len(es) : es[i].s = a \/ es[i].t = a} IN
    IF inc = {} THEN {es}
    ELSE UNION {DropIncident(SwapRemove(es, i - 1), a) : i \in inc}
Renumber(es, old, new) ==
    [i \in 1 .. Len(es) |-> [es[i] EXCEPT !.s = IF @ = old THEN new ELSE @,
                                           !.t = IF @ = old THEN new ELSE @]]
RemoveNodeCore(a) ==
    /\ nd' = SwapRemove(nd, a)
    /\ \E es \in DropIncident(ed, a) : ed' = Renumber(es, N - 1, a)
    /\ UNCHANGED <<dir, maxix, stamp>>
RemoveNode(a) ==
    /\ IF a >= 0 /\ a < N THEN ret' = <<"i", nd[a + 1]>> /\ RemoveNodeCore(a)
       ELSE ret' = <<"none">> /\ UnchG
    /\ NoPend

ReverseG == /\ ed' = [i \in 1 .. M |-> [ed[i] EXCEPT !.s = ed[i].t, !.t = ed[i].s]]
           /\ ret' = <<"s", "ok">> /\ UNCHANGED <<nd, dir, maxix, stamp>> /\ NoPend
Clear == /\ nd' = <<>> /\ ed' = <<>> /\ ret' = <<"s", "ok">> /\ UNCHANGED <<dir, maxix, stamp>> /\ NoPend
ClearEdges == /\ ed' = <<>> /\ ret' = <<"s", "ok">> /\ UNCHANGED <<nd, dir, maxix, stamp>> /\ NoPend

\* node_weight_mut / IndexMut / node_weights_mut: returns the old weight, stores w
SetNodeWeight(a, w) ==
    /\ IF a >= 0 /\ a < N THEN /\ ret' = <<"i", nd[a + 1]>> /\ nd' = [nd EXCEPT ![a + 1] = w]
                               /\ UNCHANGED <<ed, dir, maxix, stamp>>
       ELSE ret' = <<"none">> /\ UnchG
    /\ NoPend
SetEdgeWeight(e, w) ==
    /\ IF e >= 0 /\ e < M THEN /\ ret' = <<"i", ed[e + 1].w>> /\ ed' = [ed EXCEPT ![e + 1].w = w]
                               /\ UNCHANGED <<nd, dir, maxix, stamp>>
       ELSE ret' = <<"none">> /\ UnchG
    /\ NoPend
\* index_twice_mut(node a, edge e): swaps the two weights; panics if out of bounds
IndexTwiceNE(a, e) ==
    /\ IF a >= 0 /\ a < N /\ e >= 0 /\ e < M
       THEN /\ nd' = [nd EXCEPT ![a + 1] = ed[e + 1].w] /\ ed' = [ed EXCEPT ![e + 1].w = nd[a + 1]]
            /\ ret' = <<"s", "ok">> /\ UNCHANGED <<dir, maxix, stamp>>
       ELSE ret' = <<"panic">> /\ UnchG
    /\ NoPend
\* index_twice_mut(node a, node b): panics if equal or out of bounds
IndexTwiceNN(a, b) ==
    /\ IF a # b /\ a >= 0 /\ a < N /\ b >= 0 /\ b < N
       THEN /\ nd' = [nd EXCEPT ![a + 1] = nd[b + 1], ![b + 1] = nd[a + 1]]
            /\ ret' = <<"s", "ok">> /\ UNCHANGED <<ed, dir, maxix, stamp>>
       ELSE ret' = <<"panic">> /\ UnchG
    /\ NoPend

\* into_edge_type: same nodes, edges and list order, other edge type
IntoEdgeType(d) == /\ dir' = d /\ ret' = <<"s", "ok">> /\ UNCHANGED <<nd, ed, maxix, stamp>> /\ NoPend
\* clone, capacity calls, shrink, Graph -> StableGraph -> Graph without vacancies: nothing observable changes
NoEffect == ret' = <<"s", "ok">> /\ UnchG /\ NoPend

(* retain_nodes / retain_edges: the closure is called once per live element, in an
   unspecified order; a rejected element is removed exactly like remove_node/remove_edge *)
RetainBegin(kind) ==
    /\ pending = {}
    /\ pending' = IF kind = "node" THEN {nd[i] : i \in DOMAIN nd} ELSE {ed[i].w : i \in DOMAIN ed}
    /\ ret' = <<"s", "ok">> /\ UnchG
RetainVisitNode(a, w, keep) ==
    /\ a >= 0 /\ a < N /\ nd[a + 1] = w /\ w \in pending
    /\ pending' = pending \ {w}
    /\ ret' = <<"b", keep>>
    /\ IF keep THEN UnchG ELSE RemoveNodeCore(a)
RetainVisitEdge(e, w, keep) ==
    /\ e >= 0 /\ e < M /\ ed[e + 1].w = w /\ w \in pending
    /\ pending' = pending \ {w}
    /\ ret' = <<"b", keep>>
    /\ IF keep THEN UnchG ELSE RemoveEdgeCore(e)
RetainEnd == /\ pending = {} /\ ret' = <<"s", "ok">> /\ UnchG /\ NoPend

(* extend_with_edges: for each (s,t,w): default-weight (0) nodes are appended until both
   endpoints exist, then the edge is added *)
RECURSIVE ExtendFold(_, _, _, _)
ExtendFold(nds, eds, st, list) ==
    IF list = <<>> THEN <<nds, eds, st>>
    ELSE LET x == Head(list)   mx == IF x[1] > x[2] THEN x[1] ELSE x[2]
             nds2 == IF mx >= Len(nds) THEN nds \o [i \in 1 .. (mx + 1 - Len(nds)) |-> 0] ELSE nds IN
         ExtendFold(nds2, Append(eds, [s |-> x[1], t |-> x[2], w |-> x[3], k |-> st]), st + 1, Tail(list))
ExtendFits(list) == /\ \A i \in DOMAIN list : list[i][1] < maxix /\ list[i][2] < maxix
                    /\ M + Len(list) <= maxix
ExtendWithEdges(list) ==
    /\ ExtendFits(list)       \* beyond the index limit the call panics part-way: not driven
    /\ LET r == ExtendFold(nd, ed, stamp, list) IN nd' = r[1] /\ ed' = r[2] /\ stamp' = r[3]
    /\ ret' = <<"s", "ok">> /\ UNCHANGED <<dir, maxix>> /\ NoPend

(* map: same structure and indices, new weights (given per index); list order preserved.
   filter_map: kept nodes are compacted in index order, then kept edges with both endpoints
   kept are added in index order. nmap[i+1] = new weight of node i or -1 (dropped). *)
Map(nmap, emap) ==
    /\ Len(nmap) = N /\ Len(emap) = M
    /\ nd' = nmap /\ ed' = [i \in 1 .. M |-> [ed[i] EXCEPT !.w = emap[i]]]
    /\ ret' = <<"s", "ok">> /\ UNCHANGED <<dir, maxix, stamp>> /\ NoPend
FilterMap(nmap, emap) ==
    /\ Len(nmap) = N /\ Len(emap) = M
    /\ LET keptN == {i \in 1 .. N : nmap[i] >= 0}
           newIx(i) == Cardinality({j \in keptN : j < i})          \* 0-based new index of old node i (1-based)
           keptE == {i \in 1 .. M : emap[i] >= 0 /\ (ed[i].s + 1) \in keptN /\ (ed[i].t + 1) \in keptN}
           ns == Asc(keptN)   es == Asc(keptE) IN
       /\ nd' = [j \in 1 .. Len(ns) |-> nmap[ns[j]]]
       /\ ed' = [j \in 1 .. Len(es) |-> [s |-> newIx(ed[es[j]].s + 1), t |-> newIx(ed[es[j]].t + 1),
                                          w |-> emap[es[j]], k |-> stamp + j - 1]]
       /\ stamp' = stamp + Len(es)
    /\ ret' = <<"s", "ok">> /\ UNCHANGED <<dir, maxix>> /\ NoPend

---------------------------------------------------------------------------
(* bounded model: weights from W, arguments from 0..maxix (one past every valid index) *)
CONSTANT W
Args == 0 .. MaxIxC
Next ==
    \/ \E w \in W : TryAddNode(w) \/ AddNode(w)
    \/ \E a, b \in Args, w \in W : TryAddEdge(a, b, w) \/ AddEdge(a, b, w) \/ TryUpdateEdge(a, b, w) \/ UpdateEdge(a, b, w)
    \/ \E e \in Args : RemoveEdge(e) \/ RemoveNode(e)
    \/ ReverseG \/ Clear \/ ClearEdges
    \/ \E a \in Args, w \in W : SetNodeWeight(a, w) \/ SetEdgeWeight(a, w)
    \/ \E a, e \in Args : IndexTwiceNE(a, e) \/ IndexTwiceNN(a, e)
    \/ \E d \in BOOLEAN : IntoEdgeType(d)
Spec == Init /\ [][Next]_avars

\* every error / None / panic result leaves the graph unchanged
ErrUnchanged == [][(ret'[1] \in {"err_s", "none", "panic"}) => UNCHANGED gvars]_avars
Inv == WF /\ Compact
\* stamps only matter through their relative order: the model checker identifies states up to it
MCView == <<nd, [i \in DOMAIN ed |-> <<ed[i].s, ed[i].t, ed[i].w, Cardinality({j \in DOMAIN ed : ed[j].k < ed[i].k})>>], dir, maxix, ret, pending>>
============================================================================
