SPECIFICATION Spec
CONSTANTS MaxIxC = 3
          W = {1}
          Mutant = "none"
INVARIANT Inv
PROPERTY Refines
VIEW MCView
CHECK_DEADLOCK FALSE
