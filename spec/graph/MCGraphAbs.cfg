SPECIFICATION Spec
CONSTANTS W = {1, 2}
INVARIANT Inv
PROPERTY ErrUnchanged
CHECK_DEADLOCK FALSE
