SPECIFICATION Spec
CONSTANTS W = {1}
          MaxIxC = 3
INVARIANT Inv
PROPERTY ErrUnchanged
CHECK_DEADLOCK FALSE
VIEW MCView
