SPECIFICATION Spec
CONSTANTS MaxIxC = 3
          W = {1}
          Mutant = "no_relink"
INVARIANT Inv
VIEW MCView
CHECK_DEADLOCK FALSE
