SPECIFICATION Spec
CONSTANTS MaxN = 4
  MaxOps = 14
  Compact = TRUE
  Mutant = "fut_first"
CONSTRAINT Bounded
VIEW View
INVARIANT Inv
CHECK_DEADLOCK FALSE
