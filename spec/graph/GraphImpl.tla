------------------------------ MODULE GraphImpl ------------------------------
(* C01, implementation-shaped: Graph as coded in src/graph_impl/mod.rs.  nodes[i] = [w, n0, n1] with the
   heads of the outgoing / incoming edge lists; edges[e] = [w, s, t, n0, n1, k] with the next edge in the
   source's out-list / the target's in-list (k = ghost insertion stamp).  END = MaxIxC.
   One action per public call, internals as separate operators: index_twice head insertion,
   change_edge_links, remove_edge_adjust_indices (swap_remove + relinking of the moved edge), the
   remove_node loops and the relocation walk over the moved node's edges.
   TLC checks list well-formedness, most-recent-first order and refinement of GraphAbs.            *)
EXTENDS Integers, Sequences, FiniteSets, SequencesExt, TLC

CONSTANTS MaxIxC, W,
          Mutant      \* "none"; "no_relink" drops the relinking of the edge moved by swap_remove (negative configuration)
END == MaxIxC

VARIABLES nodes, edges, dir, stamp, ret
ivars == <<nodes, edges, dir, stamp, ret>>
Nd(i) == nodes[i + 1]
Ed(e) == edges[e + 1]
N == Len(nodes)
M == Len(edges)

Init == nodes = <<>> /\ edges = <<>> /\ dir \in BOOLEAN /\ stamp = 0 /\ ret = <<"s", "ok">>
Unch == UNCHANGED <<nodes, edges, dir, stamp>>

AddNode(w) == IF N = END THEN ret' = <<"err_s", "NodeIxLimit">> /\ Unch
              ELSE nodes' = Append(nodes, [w |-> w, n0 |-> END, n1 |-> END]) /\ ret' = <<"ok_i", N>> /\ UNCHANGED <<edges, dir, stamp>>

AddEdge(a, b, w) ==     \* try_add_edge: limit check, then index_twice (None / One / Both)
    IF M = END THEN ret' = <<"err_s", "EdgeIxLimit">> /\ Unch
    ELSE IF a >= N \/ b >= N THEN ret' = <<"err_s", "NodeOutBounds">> /\ Unch
    ELSE /\ edges' = Append(edges, [w |-> w, s |-> a, t |-> b, n0 |-> Nd(a).n0, n1 |-> Nd(b).n1, k |-> stamp])
         /\ nodes' = IF a = b THEN [nodes EXCEPT ![a + 1].n0 = M, ![a + 1].n1 = M]
                     ELSE [nodes EXCEPT ![a + 1].n0 = M, ![b + 1].n1 = M]
         /\ stamp' = stamp + 1 /\ ret' = <<"ok_i", M>> /\ UNCHANGED dir

(* change_edge_links(edge_node, e, edge_next): in the out-list of edge_node[0] and the in-list of
   edge_node[1], replace the link to e by edge_next[0] / edge_next[1] *)
RECURSIVE Relink(_, _, _, _, _)
Relink(es, cur, e, nxt, d) ==
    IF cur = END \/ cur >= Len(es) THEN es
    ELSE LET lk == IF d = 0 THEN es[cur + 1].n0 ELSE es[cur + 1].n1 IN
         IF lk = e THEN (IF d = 0 THEN [es EXCEPT ![cur + 1].n0 = nxt] ELSE [es EXCEPT ![cur + 1].n1 = nxt])
         ELSE Relink(es, lk, e, nxt, d)
ChangeLinks(ns, es, a, b, e, nx0, nx1) ==      \* returns <<nodes, edges>>
    LET ns1 == IF ns[a + 1].n0 = e THEN [ns EXCEPT ![a + 1].n0 = nx0] ELSE ns
        es1 == IF ns[a + 1].n0 = e THEN es ELSE Relink(es, ns[a + 1].n0, e, nx0, 0)
        ns2 == IF ns1[b + 1].n1 = e THEN [ns1 EXCEPT ![b + 1].n1 = nx1] ELSE ns1
        es2 == IF ns1[b + 1].n1 = e THEN es1 ELSE Relink(es1, ns1[b + 1].n1, e, nx1, 1)
    IN <<ns2, es2>>
SwapRemove(s, i) == LET L == Len(s) IN
    IF i = L - 1 THEN SubSeq(s, 1, L - 1) ELSE [j \in 1 .. (L - 1) |-> IF j = i + 1 THEN s[L] ELSE s[j]]
\* remove_edge on (ns, es): unlink e, swap_remove, relink the edge that moved into slot e
RemoveEdgeOn(ns, es, e) ==
    LET u == ChangeLinks(ns, es, es[e + 1].s, es[e + 1].t, e, es[e + 1].n0, es[e + 1].n1)
        es2 == SwapRemove(u[2], e)
        last == Len(es) - 1                      \* old index of the edge that moved (if any)
    IN IF e = last \/ Mutant = "no_relink" THEN <<u[1], es2>>
       ELSE ChangeLinks(u[1], es2, es2[e + 1].s, es2[e + 1].t, last, e, e)
RemoveEdge(e) ==
    IF e >= M THEN ret' = <<"none">> /\ Unch
    ELSE LET r == RemoveEdgeOn(nodes, edges, e) IN
         nodes' = r[1] /\ edges' = r[2] /\ ret' = <<"i", Ed(e).w>> /\ UNCHANGED <<dir, stamp>>

RECURSIVE Drain(_, _, _, _)
Drain(ns, es, a, d) ==
    LET head == IF d = 0 THEN ns[a + 1].n0 ELSE ns[a + 1].n1 IN
    IF head = END THEN <<ns, es>> ELSE LET r == RemoveEdgeOn(ns, es, head) IN Drain(r[1], r[2], a, d)
\* the relocation walk: the last node adopts index a; its edges get their endpoint rewritten
RECURSIVE Rewrite(_, _, _, _, _)
Rewrite(es, cur, d, old, new) ==
    IF cur = END THEN es
    ELSE LET e1 == IF d = 0 THEN [es EXCEPT ![cur + 1].s = new] ELSE [es EXCEPT ![cur + 1].t = new] IN
         Rewrite(e1, IF d = 0 THEN es[cur + 1].n0 ELSE es[cur + 1].n1, d, old, new)
RemoveNode(a) ==
    IF a >= N THEN ret' = <<"none">> /\ Unch
    ELSE LET d0 == Drain(nodes, edges, a, 0)
             d1 == Drain(d0[1], d0[2], a, 1)
             ns2 == SwapRemove(d1[1], a)
             moved == a < Len(ns2)
             es2 == IF moved THEN Rewrite(Rewrite(d1[2], ns2[a + 1].n0, 0, N - 1, a), ns2[a + 1].n1, 1, N - 1, a) ELSE d1[2]
         IN nodes' = ns2 /\ edges' = es2 /\ ret' = <<"i", Nd(a).w>> /\ UNCHANGED <<dir, stamp>>

ReverseI == /\ edges' = [i \in DOMAIN edges |-> [edges[i] EXCEPT !.s = edges[i].t, !.t = edges[i].s, !.n0 = edges[i].n1, !.n1 = edges[i].n0]]
            /\ nodes' = [i \in DOMAIN nodes |-> [nodes[i] EXCEPT !.n0 = nodes[i].n1, !.n1 = nodes[i].n0]]
            /\ ret' = <<"s", "ok">> /\ UNCHANGED <<dir, stamp>>
ClearEdges == /\ edges' = <<>> /\ nodes' = [i \in DOMAIN nodes |-> [nodes[i] EXCEPT !.n0 = END, !.n1 = END]]
              /\ ret' = <<"s", "ok">> /\ UNCHANGED <<dir, stamp>>

Args == 0 .. MaxIxC
Next == \/ \E w \in W : AddNode(w)
        \/ \E a, b \in Args, w \in W : AddEdge(a, b, w)
        \/ \E e \in Args : RemoveEdge(e) \/ RemoveNode(e)
        \/ ReverseI \/ ClearEdges
Spec == Init /\ [][Next]_ivars

---------------------------------------------------------------------------
RECURSIVE Chain(_, _, _, _)
Chain(x, step(_), fuel, acc) == IF x = END THEN acc ELSE IF fuel = 0 \/ x >= M THEN <<-1>> ELSE Chain(step(x), step, fuel - 1, Append(acc, x))
OutList(a) == Chain(Nd(a).n0, LAMBDA e : Ed(e).n0, M + 1, <<>>)
InList(a)  == Chain(Nd(a).n1, LAMBDA e : Ed(e).n1, M + 1, <<>>)
SeqSet(s) == {s[i] : i \in DOMAIN s}
AllE == 0 .. (M - 1)
ListsOK == \A a \in 0 .. (N - 1) :
    /\ SeqSet(OutList(a)) = {e \in AllE : Ed(e).s = a} /\ Len(OutList(a)) = Cardinality({e \in AllE : Ed(e).s = a})
    /\ SeqSet(InList(a)) = {e \in AllE : Ed(e).t = a} /\ Len(InList(a)) = Cardinality({e \in AllE : Ed(e).t = a})
OrderOK == \A a \in 0 .. (N - 1) :
    /\ \A j \in 1 .. (Len(OutList(a)) - 1) : Ed(OutList(a)[j]).k > Ed(OutList(a)[j + 1]).k
    /\ \A j \in 1 .. (Len(InList(a)) - 1) : Ed(InList(a)[j]).k > Ed(InList(a)[j + 1]).k
EndpointsOK == \A e \in AllE : Ed(e).s < N /\ Ed(e).t < N
Inv == ListsOK /\ OrderOK /\ EndpointsOK

AbsNd == [i \in DOMAIN nodes |-> nodes[i].w]
AbsEd == [i \in DOMAIN edges |-> [s |-> edges[i].s, t |-> edges[i].t, w |-> edges[i].w, k |-> edges[i].k]]
Abs == INSTANCE GraphAbs WITH nd <- AbsNd, ed <- AbsEd, maxix <- MaxIxC, pending <- {}
AbsStep ==
    \/ \E w \in W : Abs!TryAddNode(w)
    \/ \E a, b \in Args, w \in W : Abs!TryAddEdge(a, b, w)
    \/ \E e \in Args : Abs!RemoveEdge(e) \/ Abs!RemoveNode(e)
    \/ Abs!ReverseG \/ Abs!ClearEdges
    \/ UNCHANGED <<AbsNd, AbsEd, dir, stamp, ret>>
Refines == [][AbsStep]_ivars
MCView == <<nodes, [i \in DOMAIN edges |-> [edges[i] EXCEPT !.k = Cardinality({j \in DOMAIN edges : edges[j].k < edges[i].k})]], dir, ret>>
=============================================================================
