----------------------------- MODULE StableAbs -----------------------------
(* C02.  petgraph::stable_graph::StableGraph against a reference multigraph
   with stable indices: a live element keeps its index until it is removed,
   removed indices are absent, a new element gets SOME index that is not live
   (which one is not specified: a vacancy or the next fresh slot), an Err
   leaves everything unchanged.                                              *)
EXTENDS MGState

CONSTANT MaxIxC        \* index-type limit of the bounded model (the trace specs take it from the trace)

avars == <<nd, ed, dir, maxix, stamp, ret, pending>>
UnchG == UNCHANGED <<nd, ed, dir, maxix, stamp>>
NoPend == pending' = pending

(* Canonical form: the slot sequences end with a live element (trailing vacancies are not
   observable: node_bound/edge_bound are 1 + the greatest live index), so the abstract state is
   exactly the projection the public API shows. *)
RECURSIVE TrimN(_)
TrimN(s) == IF s # <<>> /\ s[Len(s)] = -1 THEN TrimN(SubSeq(s, 1, Len(s) - 1)) ELSE s
RECURSIVE TrimE(_)
TrimE(s) == IF s # <<>> /\ s[Len(s)].w = -1 THEN TrimE(SubSeq(s, 1, Len(s) - 1)) ELSE s
Canonical == TrimN(nd) = nd /\ TrimE(ed) = ed

\* a new element may get ANY index that is not live (below the index type's limit)
FreeNAt(i) == i >= 0 /\ i < maxix /\ ~NLive(i)
FreeEAt(e) == e >= 0 /\ e < maxix /\ ~ELive(e)
PutN(i, w) == IF i < Len(nd) THEN [nd EXCEPT ![i + 1] = w]
              ELSE nd \o [j \in 1 .. (i - Len(nd)) |-> -1] \o <<w>>
PutE(e, r) == IF e < Len(ed) THEN [ed EXCEPT ![e + 1] = r]
              ELSE ed \o [j \in 1 .. (e - Len(ed)) |-> VacE] \o <<r>>
NFull == NodeCount = maxix          \* every index the type can name is live
EFull == EdgeCount = maxix

Init == /\ nd = <<>> /\ ed = <<>> /\ stamp = 0 /\ ret = <<"s", "ok">> /\ pending = {}
        /\ dir \in BOOLEAN /\ maxix = MaxIxC

---------------------------------------------------------------------------
(* add_node / try_add_node returning index i (the index is a parameter: the model checker tries
   every candidate, trace validation passes the logged one) *)
AddNodeAt(w, i, tag) == /\ FreeNAt(i) /\ nd' = PutN(i, w) /\ ret' = <<tag, i>>
                        /\ UNCHANGED <<ed, dir, maxix, stamp>> /\ NoPend
TryAddNodeFull == NFull /\ ret' = <<"err_s", "NodeIxLimit">> /\ UnchG /\ NoPend
AddNodeFull    == NFull /\ ret' = <<"panic">> /\ UnchG /\ NoPend

(* possible errors of an edge insertion; when several apply any of them may be reported *)
AddEdgeErrs(a, b) == (IF EFull THEN {<<"err_s", "EdgeIxLimit">>} ELSE {})
                     \cup {<<"err_i", x>> : x \in {y \in {a, b} : ~NLive(y)}}
DoAddEdge(a, b, w, e, tag) ==
    /\ FreeEAt(e)
    /\ ed' = PutE(e, [s |-> a, t |-> b, w |-> w, k |-> stamp])
    /\ stamp' = stamp + 1 /\ ret' = <<tag, e>>
    /\ UNCHANGED <<nd, dir, maxix>>
\* e: the index the call returns when it succeeds by inserting (ignored otherwise)
TryAddEdge(a, b, w, e) ==
    /\ IF AddEdgeErrs(a, b) # {} THEN (ret' \in AddEdgeErrs(a, b)) /\ UnchG
       ELSE DoAddEdge(a, b, w, e, "ok_i")
    /\ NoPend
AddEdge(a, b, w, e) ==
    /\ IF AddEdgeErrs(a, b) # {} THEN ret' = <<"panic">> /\ UnchG ELSE DoAddEdge(a, b, w, e, "i")
    /\ NoPend
UpdateExisting(a, b, w, tag) ==
    \E x \in Conn(a, b) : /\ ed' = [ed EXCEPT ![x + 1].w = w] /\ ret' = <<tag, x>>
                          /\ UNCHANGED <<nd, dir, maxix, stamp>>
TryUpdateEdge(a, b, w, e) ==
    /\ IF Conn(a, b) # {} THEN UpdateExisting(a, b, w, "ok_i")
       ELSE IF AddEdgeErrs(a, b) # {} THEN (ret' \in AddEdgeErrs(a, b)) /\ UnchG
            ELSE DoAddEdge(a, b, w, e, "ok_i")
    /\ NoPend
UpdateEdge(a, b, w, e) ==
    /\ IF Conn(a, b) # {} THEN UpdateExisting(a, b, w, "i")
       ELSE IF AddEdgeErrs(a, b) # {} THEN ret' = <<"panic">> /\ UnchG
            ELSE DoAddEdge(a, b, w, e, "i")
    /\ NoPend

RemoveEdgeCore(e) == ed' = TrimE([ed EXCEPT ![e + 1] = VacE]) /\ UNCHANGED <<nd, dir, maxix, stamp>>
RemoveEdge(e) == /\ IF ELive(e) THEN ret' = <<"i", Ed(e).w>> /\ RemoveEdgeCore(e)
                    ELSE ret' = <<"none">> /\ UnchG
                 /\ NoPend
RemoveNodeCore(a) ==
    /\ nd' = TrimN([nd EXCEPT ![a + 1] = -1])
    /\ ed' = TrimE([i \in DOMAIN ed |-> IF ed[i].w # -1 /\ (ed[i].s = a \/ ed[i].t = a) THEN VacE ELSE ed[i]])
    /\ UNCHANGED <<dir, maxix, stamp>>
RemoveNode(a) == /\ IF NLive(a) THEN ret' = <<"i", nd[a + 1]>> /\ RemoveNodeCore(a)
                    ELSE ret' = <<"none">> /\ UnchG
                 /\ NoPend

ReverseG == /\ ed' = [i \in DOMAIN ed |-> IF ed[i].w = -1 THEN VacE ELSE [ed[i] EXCEPT !.s = ed[i].t, !.t = ed[i].s]]
            /\ ret' = <<"s", "ok">> /\ UNCHANGED <<nd, dir, maxix, stamp>> /\ NoPend
Clear == /\ nd' = <<>> /\ ed' = <<>> /\ ret' = <<"s", "ok">> /\ UNCHANGED <<dir, maxix, stamp>> /\ NoPend
ClearEdges == /\ ed' = <<>> /\ ret' = <<"s", "ok">> /\ UNCHANGED <<nd, dir, maxix, stamp>> /\ NoPend

SetNodeWeight(a, w) ==
    /\ IF NLive(a) THEN /\ ret' = <<"i", nd[a + 1]>> /\ nd' = [nd EXCEPT ![a + 1] = w]
                        /\ UNCHANGED <<ed, dir, maxix, stamp>>
       ELSE ret' = <<"none">> /\ UnchG
    /\ NoPend
SetEdgeWeight(e, w) ==
    /\ IF ELive(e) THEN /\ ret' = <<"i", Ed(e).w>> /\ ed' = [ed EXCEPT ![e + 1].w = w]
                        /\ UNCHANGED <<nd, dir, maxix, stamp>>
       ELSE ret' = <<"none">> /\ UnchG
    /\ NoPend
IndexTwiceNE(a, e) ==
    /\ IF NLive(a) /\ ELive(e)
       THEN /\ nd' = [nd EXCEPT ![a + 1] = Ed(e).w] /\ ed' = [ed EXCEPT ![e + 1].w = nd[a + 1]]
            /\ ret' = <<"s", "ok">> /\ UNCHANGED <<dir, maxix, stamp>>
       ELSE ret' = <<"panic">> /\ UnchG
    /\ NoPend
IndexTwiceNN(a, b) ==
    /\ IF a # b /\ NLive(a) /\ NLive(b)
       THEN /\ nd' = [nd EXCEPT ![a + 1] = nd[b + 1], ![b + 1] = nd[a + 1]]
            /\ ret' = <<"s", "ok">> /\ UNCHANGED <<ed, dir, maxix, stamp>>
       ELSE ret' = <<"panic">> /\ UnchG
    /\ NoPend
NoEffect == ret' = <<"s", "ok">> /\ UnchG /\ NoPend

RetainBegin(kind) ==
    /\ pending = {}
    /\ pending' = IF kind = "node" THEN {nd[i + 1] : i \in LiveN} ELSE {Ed(e).w : e \in LiveE}
    /\ ret' = <<"s", "ok">> /\ UnchG
RetainVisitNode(a, w, keep) ==
    /\ NLive(a) /\ nd[a + 1] = w /\ w \in pending
    /\ pending' = pending \ {w} /\ ret' = <<"b", keep>>
    /\ IF keep THEN UnchG ELSE RemoveNodeCore(a)
RetainVisitEdge(e, w, keep) ==
    /\ ELive(e) /\ Ed(e).w = w /\ w \in pending
    /\ pending' = pending \ {w} /\ ret' = <<"b", keep>>
    /\ IF keep THEN UnchG ELSE RemoveEdgeCore(e)
\* an element whose endpoint was removed by an earlier visit is not visited (it is already gone)
RetainEnd == /\ pending \cap ({nd[i + 1] : i \in LiveN} \cup {Ed(e).w : e \in LiveE}) = {}
             /\ pending' = {} /\ ret' = <<"s", "ok">> /\ UnchG

(* extend_with_edges: each named endpoint is created at exactly that index (default weight 0) if it
   is not live, then the edge is added at some index that is not live at that moment.
   eix[j] = index the j-th listed edge ends up at (a parameter, like the add_node index). *)
Ensure(nds, i) == LET padded == IF i >= Len(nds) THEN nds \o [j \in 1 .. (i + 1 - Len(nds)) |-> -1] ELSE nds IN
                  IF padded[i + 1] = -1 THEN [padded EXCEPT ![i + 1] = 0] ELSE padded
RECURSIVE ExtendFold(_, _, _, _, _)
ExtendFold(nds, eds, st, list, eix) ==      \* <<ok, nd, ed, stamp>>
    IF list = <<>> THEN <<TRUE, nds, eds, st>>
    ELSE LET x == Head(list)   e == Head(eix)
             nds2 == Ensure(Ensure(nds, x[1]), x[2])
             r == [s |-> x[1], t |-> x[2], w |-> x[3], k |-> st]
             free == e >= 0 /\ e < maxix /\ (e >= Len(eds) \/ eds[e + 1].w = -1)
             eds2 == IF e < Len(eds) THEN [eds EXCEPT ![e + 1] = r]
                     ELSE eds \o [j \in 1 .. (e - Len(eds)) |-> VacE] \o <<r>> IN
         IF ~free THEN <<FALSE, nds, eds, st>>
         ELSE ExtendFold(nds2, eds2, st + 1, Tail(list), Tail(eix))
ExtendWithEdges(list, eix) ==
    /\ \A i \in DOMAIN list : list[i][1] < maxix /\ list[i][2] < maxix
    /\ EdgeCount + Len(list) <= maxix /\ Len(eix) = Len(list)
    /\ LET r == ExtendFold(nd, ed, stamp, list, eix) IN
       r[1] /\ nd' = r[2] /\ ed' = r[3] /\ stamp' = r[4]
    /\ ret' = <<"s", "ok">> /\ UNCHANGED <<dir, maxix>> /\ NoPend

(* map keeps every index; filter_map keeps the index of everything it keeps, drops edges with a
   dropped endpoint.  nmap/emap: new weight per slot up to the bound, -1 = dropped or vacant. *)
Map(nmap, emap) ==
    /\ Len(nmap) = NodeBound /\ Len(emap) = EdgeBound
    /\ \A i \in DOMAIN nmap : (nmap[i] >= 0) <=> NLive(i - 1)
    /\ \A i \in DOMAIN emap : (emap[i] >= 0) <=> ELive(i - 1)
    /\ nd' = nmap
    /\ ed' = [i \in 1 .. EdgeBound |-> IF emap[i] >= 0 THEN [ed[i] EXCEPT !.w = emap[i]] ELSE VacE]
    /\ ret' = <<"s", "ok">> /\ UNCHANGED <<dir, maxix, stamp>> /\ NoPend
FilterMap(nmap, emap) ==
    /\ Len(nmap) = NodeBound /\ Len(emap) = EdgeBound
    /\ \A i \in DOMAIN nmap : (nmap[i] >= 0) => NLive(i - 1)
    /\ \A i \in DOMAIN emap : (emap[i] >= 0) => ELive(i - 1)
    /\ nd' = TrimN(nmap)
    /\ LET keep == {i \in 1 .. EdgeBound : emap[i] >= 0 /\ nmap[ed[i].s + 1] >= 0 /\ nmap[ed[i].t + 1] >= 0} IN
       \* re-added in index order: stamps follow the index
       ed' = TrimE([i \in 1 .. EdgeBound |-> IF i \in keep THEN [ed[i] EXCEPT !.w = emap[i], !.k = stamp + i] ELSE VacE])
    /\ stamp' = stamp + EdgeBound + 1
    /\ ret' = <<"s", "ok">> /\ UNCHANGED <<dir, maxix>> /\ NoPend

---------------------------------------------------------------------------
CONSTANT W
Args == 0 .. MaxIxC
Next ==
    \/ \E w \in W, i \in {x \in Args : x <= Len(nd)} : AddNodeAt(w, i, "ok_i") \/ AddNodeAt(w, i, "i")
    \/ TryAddNodeFull \/ AddNodeFull
    \/ \E a, b \in Args, e \in {x \in Args : x <= Len(ed)}, w \in W : TryAddEdge(a, b, w, e) \/ AddEdge(a, b, w, e) \/ TryUpdateEdge(a, b, w, e) \/ UpdateEdge(a, b, w, e)
    \/ \E e \in Args : RemoveEdge(e) \/ RemoveNode(e)
    \/ ReverseG \/ Clear \/ ClearEdges
    \/ \E a \in Args, w \in W : SetNodeWeight(a, w) \/ SetEdgeWeight(a, w)
    \/ \E a, e \in Args : IndexTwiceNE(a, e) \/ IndexTwiceNN(a, e)
Spec == Init /\ [][Next]_avars

ErrUnchanged == [][(ret'[1] \in {"err_s", "err_i", "none", "panic"}) => UNCHANGED gvars]_avars
\* an index handed out by an add was not live before; a live element keeps index and endpoints
FreshIndex == [][((ret'[1] \in {"ok_i"}) /\ nd' # nd /\ Len(nd') >= Len(nd)) => ~NLive(ret'[2])]_avars
Stable == [][\A e \in LiveE : (e \in {x \in 0 .. (Len(ed') - 1) : ed'[x + 1].w # -1})
                 => (ed'[e + 1].s = Ed(e).s /\ ed'[e + 1].t = Ed(e).t) \/ (ed'[e + 1].s = Ed(e).t /\ ed'[e + 1].t = Ed(e).s)]_avars
Inv == WF /\ Canonical
MCView == <<nd, [i \in DOMAIN ed |-> <<ed[i].s, ed[i].t, ed[i].w, Cardinality({j \in DOMAIN ed : ed[j].w # -1 /\ ed[j].k < ed[i].k})>>], dir, maxix, ret, pending>>
============================================================================
