----------------------------- MODULE GraphCover -----------------------------
(* State cover of GraphAbs for the spec -> code direction: TLC explores the abstract Graph model
   for the tiny index type and prints, for every distinct abstract state (up to stamp order, results
   hidden), one shortest history of calls that reaches it.  The harness replays each history on the
   real Graph and then forks EVERY call of the alphabet from the reached state (save / restore);
   the recorded traces are validated against GraphAbs again.                                   *)
EXTENDS GraphAbs, Json, TLC

VARIABLE hist
cvars == <<nd, ed, dir, maxix, stamp, ret, pending, hist>>
H(op) == hist' = Append(hist, op)

CInit == Init /\ hist = <<[op |-> "reset", kind |-> "graph", directed |-> dir]>>
CNext ==
    \/ \E w \in W : AddNode(w) /\ ret'[1] = "i" /\ H([op |-> "add_node"])
    \/ \E a, b \in 0 .. 2, w \in W : AddEdge(a, b, w) /\ ret'[1] = "i" /\ H([op |-> "add_edge", a |-> a, b |-> b])
    \/ \E a, b \in 0 .. 2, w \in W : UpdateEdge(a, b, w) /\ ret'[1] = "i" /\ H([op |-> "update_edge", a |-> a, b |-> b])
    \/ \E e \in 0 .. 2 : RemoveEdge(e) /\ ret'[1] = "i" /\ H([op |-> "remove_edge", e |-> e])
    \/ \E a \in 0 .. 2 : RemoveNode(a) /\ ret'[1] = "i" /\ H([op |-> "remove_node", a |-> a])
    \/ (ed # <<>> /\ ReverseG /\ H([op |-> "reverse"]))
CSpec == CInit /\ [][CNext]_cvars

\* results are not part of the state to be covered
CoverView == <<nd, [i \in DOMAIN ed |-> <<ed[i].s, ed[i].t, Cardinality({j \in DOMAIN ed : ed[j].k < ed[i].k})>>], dir>>
CoverInv == PrintT(<<"COVER", ToJson(hist)>>)
=============================================================================
