------------------------------ MODULE MGTrace ------------------------------
(* Trace validation for C01 (Graph) and C02 (StableGraph): a recorded history of
   public calls on the real containers is accepted iff it is a behaviour of
   GraphAbs / StableAbs.  `kind` says which container the harness currently holds
   (conversions switch it).  Every line is bound to one abstract action by its op
   name; logged results (`ret`), counts and - where the abstract action is
   nondeterministic - the logged projection `st` resolve the choice.           *)
EXTENDS MGState, Json, IOUtils, TLC

G == INSTANCE GraphAbs WITH W <- {}, MaxIxC <- 3
S == INSTANCE StableAbs WITH W <- {}, MaxIxC <- 3

Rec == ndJsonDeserialize(IOEnv.TRACE)
CONSTANT DbgAt          \* debugging aid: 0 normally; k > 0 makes TLC print the state reached before line k

VARIABLES l, kind,
          acyc,      \* TRUE while the container is wrapped in Acyclic<..> (C14)
          order,     \* the topological order Acyclic maintains (nodes_iter), <<>> when not wrapped
          saved      \* a saved copy of the container (the cover replay forks many calls from one state)
tvars == <<nd, ed, dir, maxix, stamp, ret, pending, l, kind, acyc, order, saved>>

E == Rec[l]
IsEv(o) == l <= Len(Rec) /\ E.op = o /\ l' = l + 1
IsG == kind = "graph"
Has(f) == f \in DOMAIN E

(* every line: logged result, cheap scalar state, and the projection when present *)
Bind == /\ ret' = E.ret
        /\ NodeCount' = E.nc /\ EdgeCount' = E.ec
        /\ (IF Has("st") THEN StMatchesN(E.st) ELSE TRUE)
Same == kind' = kind /\ UNCHANGED <<acyc, order, saved>>

TraceInit == /\ l = 1 /\ kind = "graph" /\ acyc = FALSE /\ order = <<>> /\ saved = <<>> /\ nd = <<>> /\ ed = <<>> /\ dir = TRUE /\ maxix = 3
             /\ stamp = 0 /\ ret = <<"s", "ok">> /\ pending = {}

TrReset == /\ IsEv("reset")
           /\ kind' = E.kind /\ dir' = E.directed /\ maxix' = E.maxix
           /\ nd' = <<>> /\ ed' = <<>> /\ stamp' = 0 /\ pending' = {} /\ ret' = <<"s", "ok">>
           /\ acyc' = FALSE /\ order' = <<>> /\ saved' = <<>>

\* the index a successful insertion returned (StableAbs takes it as a parameter); -1 when the call failed
RetIx == IF E.ret[1] \in {"ok_i", "i"} THEN E.ret[2] ELSE -1
TrTryAddNode == IsEv("try_add_node") /\ (IF IsG THEN G!TryAddNode(E.w)
                                         ELSE IF E.ret[1] = "ok_i" THEN S!AddNodeAt(E.w, E.ret[2], "ok_i") ELSE S!TryAddNodeFull) /\ Bind /\ Same
TrAddNode    == IsEv("add_node")     /\ (IF IsG THEN G!AddNode(E.w)
                                         ELSE IF E.ret[1] = "i" THEN S!AddNodeAt(E.w, E.ret[2], "i") ELSE S!AddNodeFull) /\ Bind /\ Same
TrTryAddEdge == IsEv("try_add_edge") /\ (IF IsG THEN G!TryAddEdge(E.a, E.b, E.w) ELSE S!TryAddEdge(E.a, E.b, E.w, RetIx)) /\ Bind /\ Same
TrAddEdge    == IsEv("add_edge")     /\ (IF IsG THEN G!AddEdge(E.a, E.b, E.w) ELSE S!AddEdge(E.a, E.b, E.w, RetIx)) /\ Bind /\ Same
TrTryUpdateEdge == IsEv("try_update_edge") /\ (IF IsG THEN G!TryUpdateEdge(E.a, E.b, E.w) ELSE S!TryUpdateEdge(E.a, E.b, E.w, RetIx)) /\ Bind /\ Same
TrUpdateEdge == IsEv("update_edge") /\ (IF IsG THEN G!UpdateEdge(E.a, E.b, E.w) ELSE S!UpdateEdge(E.a, E.b, E.w, RetIx)) /\ Bind /\ Same
TrRemoveEdge == IsEv("remove_edge") /\ (IF IsG THEN G!RemoveEdge(E.e) ELSE S!RemoveEdge(E.e)) /\ Bind /\ Same
TrRemoveNode == IsEv("remove_node") /\ (IF IsG THEN G!RemoveNode(E.a) ELSE S!RemoveNode(E.a)) /\ Bind /\ Same
TrReverse    == IsEv("reverse")     /\ (IF IsG THEN G!ReverseG ELSE S!ReverseG) /\ Bind /\ Same
TrClear      == IsEv("clear")       /\ (IF IsG THEN G!Clear ELSE S!Clear) /\ Bind /\ Same
TrClearEdges == IsEv("clear_edges") /\ (IF IsG THEN G!ClearEdges ELSE S!ClearEdges) /\ Bind /\ Same
TrSetNodeWeight == IsEv("set_node_weight") /\ (IF IsG THEN G!SetNodeWeight(E.a, E.w) ELSE S!SetNodeWeight(E.a, E.w)) /\ Bind /\ Same
TrSetEdgeWeight == IsEv("set_edge_weight") /\ (IF IsG THEN G!SetEdgeWeight(E.e, E.w) ELSE S!SetEdgeWeight(E.e, E.w)) /\ Bind /\ Same
TrIndexTwiceNE == IsEv("index_twice_ne") /\ (IF IsG THEN G!IndexTwiceNE(E.a, E.e) ELSE S!IndexTwiceNE(E.a, E.e)) /\ Bind /\ Same
TrIndexTwiceNN == IsEv("index_twice_nn") /\ (IF IsG THEN G!IndexTwiceNN(E.a, E.b) ELSE S!IndexTwiceNN(E.a, E.b)) /\ Bind /\ Same
TrNoEffect   == IsEv("noeffect")    /\ (IF IsG THEN G!NoEffect ELSE S!NoEffect) /\ Bind /\ Same
TrIntoEdgeType == IsEv("into_edge_type") /\ IsG /\ G!IntoEdgeType(E.d) /\ Bind /\ Same
TrRetainBegin == IsEv("retain_begin") /\ (IF IsG THEN G!RetainBegin(E.kind) ELSE S!RetainBegin(E.kind)) /\ Bind /\ Same
TrRetainVisit ==
    /\ IsEv("retain_visit")
    /\ E.fz_nc = NodeCount /\ E.fz_ec = EdgeCount          \* what the closure saw through Frozen
    /\ StMatches(E.pre)                                    \* ... including the whole projection
    /\ IF E.kind = "node"
       THEN (IF IsG THEN G!RetainVisitNode(E.ix, E.w, E.keep) ELSE S!RetainVisitNode(E.ix, E.w, E.keep))
       ELSE (IF IsG THEN G!RetainVisitEdge(E.ix, E.w, E.keep) ELSE S!RetainVisitEdge(E.ix, E.w, E.keep))
    /\ ret' = E.ret /\ Same
TrRetainEnd == IsEv("retain_end") /\ (IF IsG THEN G!RetainEnd ELSE S!RetainEnd) /\ Bind /\ Same
TrExtend == IsEv("extend_with_edges") /\ (IF IsG THEN G!ExtendWithEdges(E.edges) ELSE S!ExtendWithEdges(E.edges, E.eix)) /\ Bind /\ Same
TrMap == IsEv("map") /\ (IF IsG THEN G!Map(E.nmap, E.emap) ELSE S!Map(E.nmap, E.emap)) /\ Bind /\ Same
TrFilterMap == IsEv("filter_map") /\ (IF IsG THEN G!FilterMap(E.nmap, E.emap) ELSE S!FilterMap(E.nmap, E.emap)) /\ Bind /\ Same

(* conversions between the two containers *)
TrToStable == /\ IsEv("to_stable") /\ IsG /\ kind' = "stable" /\ ret' = E.ret /\ UNCHANGED <<acyc, order, saved>>
              /\ UNCHANGED <<nd, ed, dir, maxix, stamp, pending>> /\ Bind
\* compaction in index order; edges are re-added in index order
CompactInIndexOrder ==
    LET ns == Asc(LiveN)   es == Asc(LiveE)
        newIx(i) == Cardinality({j \in LiveN : j < i}) IN
    /\ nd' = [j \in 1 .. Len(ns) |-> nd[ns[j] + 1]]
    /\ ed' = [j \in 1 .. Len(es) |-> [s |-> newIx(Ed(es[j]).s), t |-> newIx(Ed(es[j]).t),
                                       w |-> Ed(es[j]).w, k |-> stamp + j]]
    /\ stamp' = stamp + Len(es) + 1
TrToGraph ==
    /\ IsEv("to_graph") /\ ~IsG /\ kind' = "graph" /\ UNCHANGED <<acyc, order, saved>>
    /\ CompactInIndexOrder
    /\ UNCHANGED <<dir, maxix, pending>> /\ Bind
\* data::FromElements on the container's own element stream (nodes in index order, then edges in index order with
\* endpoints given as positions in the node stream): the same container type, compacted, lists rebuilt in index order
TrFromElements ==
    /\ IsEv("from_elements") /\ ~acyc /\ Same
    /\ CompactInIndexOrder
    /\ UNCHANGED <<dir, maxix, pending>> /\ Bind

(* ------------------------------------------------------------------ C17: serde
   `ser`: the JSON document is the wire format of the current state.  `de`: deserialization of that
   stream (unchanged, or after a structural / byte mutation) into the same or the other container. *)
HasVac == (\E i \in DOMAIN nd : nd[i] = -1) \/ (\E i \in DOMAIN ed : ed[i].w = -1)
WireDoc == [nodes |-> LET s == Asc(LiveN) IN [j \in 1 .. Len(s) |-> nd[s[j] + 1]],
            node_holes |-> Asc({x \in 0 .. (Len(nd) - 1) : nd[x + 1] = -1}),
            edge_property |-> IF dir THEN "directed" ELSE "undirected",
            edges |-> [j \in 1 .. Len(ed) |-> IF ed[j].w = -1 THEN <<-1, -1, -1>> ELSE <<ed[j].s, ed[j].t, ed[j].w>>]]
TrSer == /\ IsEv("ser") /\ ~acyc /\ (E.fmt = "json" => E.doc = WireDoc)
         /\ E.nc = NodeCount /\ E.ec = EdgeCount
         /\ ret' = E.ret /\ UNCHANGED <<nd, ed, dir, maxix, stamp, pending, kind, acyc, order, saved>>
\* a graph handed back by a successful deserialization of a MUTATED stream must be a well-formed
\* graph of its type (it is then adopted and every later call is validated against it)
AdoptOK(st, k) ==
    /\ \A j \in DOMAIN st.ed : st.ed[j] # <<-1, -1, -1>> =>
            /\ st.ed[j][1] \in 0 .. (Len(st.nd) - 1) /\ st.ed[j][2] \in 0 .. (Len(st.nd) - 1)
            /\ st.nd[st.ed[j][1] + 1] # -1 /\ st.nd[st.ed[j][2] + 1] # -1
    /\ (k = "graph" => (\A j \in DOMAIN st.nd : st.nd[j] # -1) /\ (\A j \in DOMAIN st.ed : st.ed[j] # <<-1, -1, -1>>))
    /\ Len(st.nd) <= maxix /\ Len(st.ed) <= maxix
\* after loading, the adjacency lists are rebuilt in index order
Reindexed(es) == [j \in DOMAIN es |-> IF es[j].w = -1 THEN VacE ELSE [es[j] EXCEPT !.k = j]]
TrDe ==
    /\ IsEv("de") /\ ~acyc
    /\ ret' = E.ret /\ UNCHANGED <<maxix, pending, acyc, order, saved>>
    /\ IF ~E.mutated
       THEN \* an unmodified stream: Graph <-> StableGraph keep all indices; a stream with vacancies is not a Graph
            IF E.to = "graph" /\ HasVac
            THEN E.ret[1] = "err_s" /\ UNCHANGED <<nd, ed, dir, stamp, kind>>
            ELSE /\ E.ret = <<"s", "ok">> /\ kind' = E.to /\ nd' = nd /\ dir' = dir
                 /\ ed' = Reindexed(ed) /\ stamp' = Len(ed) + 1
       ELSE IF E.ret[1] = "err_s" THEN UNCHANGED <<nd, ed, dir, stamp, kind>>
            ELSE /\ E.ret = <<"s", "ok">> /\ AdoptOK(E.st, E.to) /\ kind' = E.to /\ dir' = E.directed_after
                 /\ nd' = E.st.nd
                 /\ ed' = [j \in DOMAIN E.st.ed |-> IF E.st.ed[j] = <<-1, -1, -1>> THEN VacE
                                                     ELSE [s |-> E.st.ed[j][1], t |-> E.st.ed[j][2], w |-> E.st.ed[j][3], k |-> j]]
                 /\ stamp' = Len(E.st.ed) + 1
    /\ NodeCount' = E.nc /\ EdgeCount' = E.ec /\ StMatchesN(E.st)

(* ------------------------------------------------------------------ C14: Acyclic<DiGraph / StableDiGraph>
   The wrapper never lets a cycle in and keeps a valid topological order.  Which valid order it
   keeps is not specified: every event logs nodes_iter (`order`) and the spec requires it to be valid. *)
Succs(a) == {Ed(e).t : e \in Out(a)}
RECURSIVE ReachC(_)
ReachC(X) == LET T == X \cup UNION {Succs(u) : u \in X} IN IF T = X THEN X ELSE ReachC(T)
Reaches(a, b) == b \in ReachC({a})                    \* a path a ~> b (possibly empty)
HasCycle == \E e \in LiveE : Reaches(Ed(e).t, Ed(e).s)      \* includes self-loops
PosOf(ord, v) == CHOOSE i \in DOMAIN ord : ord[i] = v
\* ord lists exactly the live nodes of the NEXT state, each once, every edge forward
OrderOKN(ord) ==
    LET live == {i \in 0 .. (Len(nd') - 1) : nd'[i + 1] # -1}
        les == {e \in 1 .. Len(ed') : ed'[e].w # -1} IN
    /\ {ord[i] : i \in DOMAIN ord} = live /\ Len(ord) = Cardinality(live)
    /\ \A e \in les : PosOf(ord, ed'[e].s) < PosOf(ord, ed'[e].t)
AcBind == /\ saved' = saved /\ order' = E.order /\ OrderOKN(E.order) /\ E.pos_inc /\ E.atpos_ok /\ acyc' = TRUE /\ kind' = kind
\* a rejected call changes nothing observable, the order included
AcRejected == UNCHANGED <<nd, ed, dir, maxix, stamp, pending, saved>> /\ order' = order /\ E.order = order /\ acyc' = acyc /\ kind' = kind

TrAcWrap ==       \* Acyclic::try_from_graph / TryFrom: accepts exactly the acyclic graphs
    /\ IsEv("ac_wrap") /\ ~acyc /\ dir /\ ret' = E.ret
    /\ UNCHANGED <<nd, ed, dir, maxix, stamp, pending, kind, saved>>
    /\ IF HasCycle THEN /\ E.ret[1] = "cycle" /\ acyc' = FALSE /\ order' = <<>>
       ELSE /\ E.ret = <<"s", "ok">> /\ acyc' = TRUE /\ order' = E.order /\ OrderOKN(E.order) /\ E.pos_inc /\ E.atpos_ok
TrAcUnwrap == /\ IsEv("ac_unwrap") /\ acyc /\ acyc' = FALSE /\ order' = <<>> /\ ret' = E.ret
              /\ UNCHANGED <<nd, ed, dir, maxix, stamp, pending, kind, saved>>
TrAcAddNode == /\ IsEv("ac_add_node") /\ acyc
               /\ (IF IsG THEN G!AddNode(E.w) ELSE IF E.ret[1] = "i" THEN S!AddNodeAt(E.w, E.ret[2], "i") ELSE S!AddNodeFull)
               /\ Bind /\ AcBind
\* outcome of an edge insertion through the wrapper
AcEdgeErr(a, b) == IF a = b THEN "SelfLoop" ELSE IF Reaches(b, a) THEN "Cycle" ELSE "none"
TrAcTryAddEdge ==
    /\ IsEv("ac_try_add_edge") /\ acyc /\ NLive(E.a) /\ NLive(E.b)
    /\ IF AcEdgeErr(E.a, E.b) # "none"
       THEN ret' = <<"err_s", AcEdgeErr(E.a, E.b)>> /\ ret' = E.ret /\ AcRejected
       ELSE (IF IsG THEN G!TryAddEdge(E.a, E.b, E.w) ELSE S!TryAddEdge(E.a, E.b, E.w, RetIx)) /\ Bind /\ AcBind
TrAcTryUpdateEdge ==
    /\ IsEv("ac_try_update_edge") /\ acyc /\ NLive(E.a) /\ NLive(E.b)
    /\ IF AcEdgeErr(E.a, E.b) # "none"
       THEN ret' = <<"err_s", AcEdgeErr(E.a, E.b)>> /\ ret' = E.ret /\ AcRejected
       ELSE (IF IsG THEN G!TryUpdateEdge(E.a, E.b, E.w) ELSE S!TryUpdateEdge(E.a, E.b, E.w, RetIx)) /\ Bind /\ AcBind
TrAcBuildAddEdge ==      \* Build::add_edge: None when the edge is refused
    /\ IsEv("ac_build_add_edge") /\ acyc /\ NLive(E.a) /\ NLive(E.b)
    /\ IF AcEdgeErr(E.a, E.b) # "none" THEN ret' = <<"none">> /\ ret' = E.ret /\ AcRejected
       ELSE (IF IsG THEN G!AddEdge(E.a, E.b, E.w) ELSE S!AddEdge(E.a, E.b, E.w, RetIx)) /\ Bind /\ AcBind
TrAcBuildUpdateEdge ==   \* Build::update_edge: unwraps, i.e. panics when the edge is refused
    /\ IsEv("ac_build_update_edge") /\ acyc /\ NLive(E.a) /\ NLive(E.b)
    /\ IF AcEdgeErr(E.a, E.b) # "none" THEN ret' = <<"panic">> /\ ret' = E.ret /\ AcRejected
       ELSE (IF IsG THEN G!UpdateEdge(E.a, E.b, E.w) ELSE S!UpdateEdge(E.a, E.b, E.w, RetIx)) /\ Bind /\ AcBind
TrAcRemoveEdge == /\ IsEv("ac_remove_edge") /\ acyc /\ (IF IsG THEN G!RemoveEdge(E.e) ELSE S!RemoveEdge(E.e)) /\ Bind /\ AcBind
TrAcRemoveNode == /\ IsEv("ac_remove_node") /\ acyc /\ (IF IsG THEN G!RemoveNode(E.a) ELSE S!RemoveNode(E.a)) /\ Bind /\ AcBind

\* extra observation while wrapped: is_valid_edge for node pairs, range() sub-sequences
AcObsOK(o) ==
    /\ o.ac.order = order /\ o.ac.pos_inc /\ o.ac.atpos_ok
    /\ \A i \in DOMAIN o.ac.valid : LET p == o.ac.valid[i] IN p[3] = (p[1] # p[2] /\ ~Reaches(p[2], p[1]))
    /\ \A i \in DOMAIN o.ac.ranges : LET r == o.ac.ranges[i] IN       \* <<x, y, nodes in get_position(x)..=get_position(y)>>
            r[3] = SubSeq(order, PosOf(order, r[1]), PosOf(order, r[2]))

(* save / restore: the harness keeps a clone and later continues from it (Clone is part of the API) *)
TrSave == /\ IsEv("save") /\ saved' = <<nd, ed, dir, stamp, kind, acyc>> /\ ret' = E.ret
          /\ E.nc = NodeCount /\ E.ec = EdgeCount
          /\ UNCHANGED <<nd, ed, dir, maxix, stamp, pending, kind, acyc, order>>
\* a restored clone of an Acyclic wrapper must again present a valid order (its own: logged and checked)
TrRestore == /\ IsEv("restore") /\ saved # <<>>
             /\ nd' = saved[1] /\ ed' = saved[2] /\ dir' = saved[3] /\ stamp' = saved[4] /\ kind' = saved[5] /\ acyc' = saved[6]
             /\ ret' = E.ret /\ pending' = {} /\ UNCHANGED <<maxix, saved>>
             /\ (IF saved[6] THEN order' = E.order /\ OrderOKN(E.order) /\ E.pos_inc /\ E.atpos_ok ELSE order' = order)
             /\ NodeCount' = E.nc /\ EdgeCount' = E.ec /\ StMatchesN(E.st)

\* the IF makes TLC evaluate ObsOK as a state predicate (otherwise its inner disjunctions are expanded
\* as alternative ways to build the successor state)
TrObs == /\ IsEv("obs")
         /\ IF ObsOK(E) /\ (acyc => AcObsOK(E)) THEN UNCHANGED <<nd, ed, dir, maxix, stamp, ret, pending, kind, acyc, order, saved>> ELSE FALSE

TraceNext ==
    \/ TrReset \/ TrTryAddNode \/ TrAddNode \/ TrTryAddEdge \/ TrAddEdge \/ TrTryUpdateEdge \/ TrUpdateEdge
    \/ TrRemoveEdge \/ TrRemoveNode \/ TrReverse \/ TrClear \/ TrClearEdges
    \/ TrSetNodeWeight \/ TrSetEdgeWeight \/ TrIndexTwiceNE \/ TrIndexTwiceNN \/ TrNoEffect \/ TrIntoEdgeType
    \/ TrRetainBegin \/ TrRetainVisit \/ TrRetainEnd \/ TrExtend \/ TrMap \/ TrFilterMap
    \/ TrToStable \/ TrToGraph \/ TrFromElements \/ TrObs
    \/ TrSer \/ TrDe \/ TrSave \/ TrRestore
    \/ TrAcWrap \/ TrAcUnwrap \/ TrAcAddNode \/ TrAcTryAddEdge \/ TrAcTryUpdateEdge \/ TrAcBuildAddEdge
    \/ TrAcBuildUpdateEdge \/ TrAcRemoveEdge \/ TrAcRemoveNode

TraceSpec == TraceInit /\ [][TraceNext]_tvars

(* abstract invariants evaluated in every state of every accepted trace *)
TraceInv == WF /\ (IF IsG THEN G!Compact ELSE S!Canonical) /\ l # DbgAt
            /\ (acyc => ~HasCycle)            \* C14: the wrapped graph never contains a directed cycle

Matched == TLCGet("stats").diameter - 1
TraceAccepted ==
    IF Matched = Len(Rec) THEN TRUE
    ELSE /\ PrintT(<<"REJECTED", Matched + 1, Rec[Matched + 1].op>>)
         /\ FALSE
============================================================================
