------------------------------ MODULE MGTrace ------------------------------
(* Trace validation for C01 (Graph) and C02 (StableGraph): a recorded history of
   public calls on the real containers is accepted iff it is a behaviour of
   GraphAbs / StableAbs.  `kind` says which container the harness currently holds
   (conversions switch it).  Every line is bound to one abstract action by its op
   name; logged results (`ret`), counts and - where the abstract action is
   nondeterministic - the logged projection `st` resolve the choice.           *)
EXTENDS MGState, Json, IOUtils, TLC

G == INSTANCE GraphAbs WITH W <- {}
S == INSTANCE StableAbs WITH W <- {}

Rec == ndJsonDeserialize(IOEnv.TRACE)
CONSTANT DbgAt          \* debugging aid: 0 normally; k > 0 makes TLC print the state reached before line k

VARIABLES l, kind
tvars == <<nd, ed, dir, maxix, stamp, ret, pending, l, kind>>

E == Rec[l]
IsEv(o) == l <= Len(Rec) /\ E.op = o /\ l' = l + 1
IsG == kind = "graph"
Has(f) == f \in DOMAIN E

(* every line: logged result, cheap scalar state, and the projection when present *)
Bind == /\ ret' = E.ret
        /\ NodeCount' = E.nc /\ EdgeCount' = E.ec
        /\ (IF Has("st") THEN StMatchesN(E.st) ELSE TRUE)
Same == kind' = kind

TraceInit == /\ l = 1 /\ kind = "graph" /\ nd = <<>> /\ ed = <<>> /\ dir = TRUE /\ maxix = 3
             /\ stamp = 0 /\ ret = <<"s", "ok">> /\ pending = {}

TrReset == /\ IsEv("reset")
           /\ kind' = E.kind /\ dir' = E.directed /\ maxix' = E.maxix
           /\ nd' = <<>> /\ ed' = <<>> /\ stamp' = 0 /\ pending' = {} /\ ret' = <<"s", "ok">>

\* the index a successful insertion returned (StableAbs takes it as a parameter); -1 when the call failed
RetIx == IF E.ret[1] \in {"ok_i", "i"} THEN E.ret[2] ELSE -1
TrTryAddNode == IsEv("try_add_node") /\ (IF IsG THEN G!TryAddNode(E.w)
                                         ELSE IF E.ret[1] = "ok_i" THEN S!AddNodeAt(E.w, E.ret[2], "ok_i") ELSE S!TryAddNodeFull) /\ Bind /\ Same
TrAddNode    == IsEv("add_node")     /\ (IF IsG THEN G!AddNode(E.w)
                                         ELSE IF E.ret[1] = "i" THEN S!AddNodeAt(E.w, E.ret[2], "i") ELSE S!AddNodeFull) /\ Bind /\ Same
TrTryAddEdge == IsEv("try_add_edge") /\ (IF IsG THEN G!TryAddEdge(E.a, E.b, E.w) ELSE S!TryAddEdge(E.a, E.b, E.w, RetIx)) /\ Bind /\ Same
TrAddEdge    == IsEv("add_edge")     /\ (IF IsG THEN G!AddEdge(E.a, E.b, E.w) ELSE S!AddEdge(E.a, E.b, E.w, RetIx)) /\ Bind /\ Same
TrTryUpdateEdge == IsEv("try_update_edge") /\ (IF IsG THEN G!TryUpdateEdge(E.a, E.b, E.w) ELSE S!TryUpdateEdge(E.a, E.b, E.w, RetIx)) /\ Bind /\ Same
TrUpdateEdge == IsEv("update_edge") /\ (IF IsG THEN G!UpdateEdge(E.a, E.b, E.w) ELSE S!UpdateEdge(E.a, E.b, E.w, RetIx)) /\ Bind /\ Same
TrRemoveEdge == IsEv("remove_edge") /\ (IF IsG THEN G!RemoveEdge(E.e) ELSE S!RemoveEdge(E.e)) /\ Bind /\ Same
TrRemoveNode == IsEv("remove_node") /\ (IF IsG THEN G!RemoveNode(E.a) ELSE S!RemoveNode(E.a)) /\ Bind /\ Same
TrReverse    == IsEv("reverse")     /\ (IF IsG THEN G!ReverseG ELSE S!ReverseG) /\ Bind /\ Same
TrClear      == IsEv("clear")       /\ (IF IsG THEN G!Clear ELSE S!Clear) /\ Bind /\ Same
TrClearEdges == IsEv("clear_edges") /\ (IF IsG THEN G!ClearEdges ELSE S!ClearEdges) /\ Bind /\ Same
TrSetNodeWeight == IsEv("set_node_weight") /\ (IF IsG THEN G!SetNodeWeight(E.a, E.w) ELSE S!SetNodeWeight(E.a, E.w)) /\ Bind /\ Same
TrSetEdgeWeight == IsEv("set_edge_weight") /\ (IF IsG THEN G!SetEdgeWeight(E.e, E.w) ELSE S!SetEdgeWeight(E.e, E.w)) /\ Bind /\ Same
TrIndexTwiceNE == IsEv("index_twice_ne") /\ (IF IsG THEN G!IndexTwiceNE(E.a, E.e) ELSE S!IndexTwiceNE(E.a, E.e)) /\ Bind /\ Same
TrIndexTwiceNN == IsEv("index_twice_nn") /\ (IF IsG THEN G!IndexTwiceNN(E.a, E.b) ELSE S!IndexTwiceNN(E.a, E.b)) /\ Bind /\ Same
TrNoEffect   == IsEv("noeffect")    /\ (IF IsG THEN G!NoEffect ELSE S!NoEffect) /\ Bind /\ Same
TrIntoEdgeType == IsEv("into_edge_type") /\ IsG /\ G!IntoEdgeType(E.d) /\ Bind /\ Same
TrRetainBegin == IsEv("retain_begin") /\ (IF IsG THEN G!RetainBegin(E.kind) ELSE S!RetainBegin(E.kind)) /\ Bind /\ Same
TrRetainVisit ==
    /\ IsEv("retain_visit")
    /\ E.fz_nc = NodeCount /\ E.fz_ec = EdgeCount          \* what the closure saw through Frozen
    /\ StMatches(E.pre)                                    \* ... including the whole projection
    /\ IF E.kind = "node"
       THEN (IF IsG THEN G!RetainVisitNode(E.ix, E.w, E.keep) ELSE S!RetainVisitNode(E.ix, E.w, E.keep))
       ELSE (IF IsG THEN G!RetainVisitEdge(E.ix, E.w, E.keep) ELSE S!RetainVisitEdge(E.ix, E.w, E.keep))
    /\ ret' = E.ret /\ Same
TrRetainEnd == IsEv("retain_end") /\ (IF IsG THEN G!RetainEnd ELSE S!RetainEnd) /\ Bind /\ Same
TrExtend == IsEv("extend_with_edges") /\ (IF IsG THEN G!ExtendWithEdges(E.edges) ELSE S!ExtendWithEdges(E.edges, E.eix)) /\ Bind /\ Same
TrMap == IsEv("map") /\ (IF IsG THEN G!Map(E.nmap, E.emap) ELSE S!Map(E.nmap, E.emap)) /\ Bind /\ Same
TrFilterMap == IsEv("filter_map") /\ (IF IsG THEN G!FilterMap(E.nmap, E.emap) ELSE S!FilterMap(E.nmap, E.emap)) /\ Bind /\ Same

(* conversions between the two containers *)
TrToStable == /\ IsEv("to_stable") /\ IsG /\ kind' = "stable" /\ ret' = E.ret
              /\ UNCHANGED <<nd, ed, dir, maxix, stamp, pending>> /\ Bind
TrToGraph ==  \* compaction in index order; edges are re-added in index order
    /\ IsEv("to_graph") /\ ~IsG /\ kind' = "graph"
    /\ LET ns == Asc(LiveN)   es == Asc(LiveE)
           newIx(i) == Cardinality({j \in LiveN : j < i}) IN
       /\ nd' = [j \in 1 .. Len(ns) |-> nd[ns[j] + 1]]
       /\ ed' = [j \in 1 .. Len(es) |-> [s |-> newIx(Ed(es[j]).s), t |-> newIx(Ed(es[j]).t),
                                          w |-> Ed(es[j]).w, k |-> stamp + j]]
       /\ stamp' = stamp + Len(es) + 1
    /\ UNCHANGED <<dir, maxix, pending>> /\ Bind

\* the IF makes TLC evaluate ObsOK as a state predicate (otherwise its inner disjunctions are expanded
\* as alternative ways to build the successor state)
TrObs == /\ IsEv("obs")
         /\ IF ObsOK(E) THEN UNCHANGED <<nd, ed, dir, maxix, stamp, ret, pending, kind>> ELSE FALSE

TraceNext ==
    \/ TrReset \/ TrTryAddNode \/ TrAddNode \/ TrTryAddEdge \/ TrAddEdge \/ TrTryUpdateEdge \/ TrUpdateEdge
    \/ TrRemoveEdge \/ TrRemoveNode \/ TrReverse \/ TrClear \/ TrClearEdges
    \/ TrSetNodeWeight \/ TrSetEdgeWeight \/ TrIndexTwiceNE \/ TrIndexTwiceNN \/ TrNoEffect \/ TrIntoEdgeType
    \/ TrRetainBegin \/ TrRetainVisit \/ TrRetainEnd \/ TrExtend \/ TrMap \/ TrFilterMap
    \/ TrToStable \/ TrToGraph \/ TrObs

TraceSpec == TraceInit /\ [][TraceNext]_tvars

(* abstract invariants evaluated in every state of every accepted trace *)
TraceInv == WF /\ (IF IsG THEN G!Compact ELSE S!Canonical) /\ l # DbgAt

Matched == TLCGet("stats").diameter - 1
TraceAccepted ==
    IF Matched = Len(Rec) THEN TRUE
    ELSE /\ PrintT(<<"REJECTED", Matched + 1, Rec[Matched + 1].op>>)
         /\ FALSE
============================================================================
