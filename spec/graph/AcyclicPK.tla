----------------------------- MODULE AcyclicPK -----------------------------
(* Implementation-shaped model of `Acyclic<G>` (src/acyclic.rs, src/acyclic/order_map.rs):
   the dynamic topological order kept by the wrapper and the Pearce-Kelly style update done by
   `update_ordering` / `causal_cones` / `future_cone` / `past_cone` / `dfs`.

   State as in the code: the wrapped graph (live node ids, edge set), the two directions of
   OrderMap collapsed into `pos` (node -> TopologicalPosition; positions are NOT compact: a removed
   node leaves a gap and a new node gets last+1), and the inner graph's id allocation
   (StableDiGraph: LIFO free list; DiGraph: compact ids, remove_node renames the last node).

   One action per public call.  The cones are the sets the two DFS runs discover, including the
   detail that both runs share one `discovered` bitset (the second run never enters a node of the
   first cone), the range trimming at TreeEdge events, and the three debug assertions /
   `unreachable!` of the code, which become the `panic` flag.

   Checked: the order is a valid topological order in every reachable state (TopoOK), positions
   are injective (PosInj), no assertion of the code can fire (NoPanic), an insertion is refused
   exactly when it is a self-loop or closes a cycle (Verdict, against an independent reachability
   definition), a refused insertion changes nothing (RejectKeeps), and renaming on DiGraph removal
   keeps the bookkeeping of every other node (part of TopoOK / PosInj).  This is the abstract C14
   contract of MGTrace.tla, so the model refines it.

   Which valid order the implementation keeps is NOT part of C14; the exact order this model
   predicts is therefore only reported (agreement with the real code), never a verdict.      *)
EXTENDS Integers, Sequences, FiniteSets, TLC, Json, SequencesExt

CONSTANTS MaxN,      \* node ids 0..MaxN-1
          MaxOps,    \* bound on the length of a history (CONSTRAINT)
          Compact,   \* TRUE: DiGraph (compact ids, removal renames the last node); FALSE: StableDiGraph
          Mutant     \* "none" | "fut_first" | "no_rename" (negative controls) | "no_trim" (an equivalent variant: TLC shows the range trimming is only an optimisation)

VARIABLES live,   \* set of live node ids
          eg,     \* set of <<u, v>>: there is at least one edge u -> v
          pos,    \* [0..MaxN-1 -> Nat]: position of each live node (0 for the others, as in the code)
          free,   \* StableDiGraph: vacant node ids, most recently vacated first
          res,    \* result of the last call
          panic,  \* an assertion / unreachable! of the code would have fired
          hist    \* the calls so far (not part of the state identity: see View)

vars == <<live, eg, pos, free, res, panic, hist>>
Ids == 0 .. (MaxN - 1)

\* ---------------- helpers
ByPos(S) == SetToSortSeq(S, LAMBDA x, y : pos[x] < pos[y])
SortedInts(S) == SetToSortSeq(S, LAMBDA x, y : x < y)
MaxPos == IF live = {} THEN -1 ELSE CHOOSE p \in {pos[n] : n \in live} : \A m \in live : pos[m] <= p

\* independent definition used only by the properties
RECURSIVE ReachSet(_, _)
ReachSet(X, E) == LET T == X \cup {e[2] : e \in {f \in E : f[1] \in X}} IN IF T = X THEN X ELSE ReachSet(T, E)
Reaches(a, b, E) == b \in ReachSet({a}, E)

\* ---------------- the two DFS runs of causal_cones
\* future_cone(start = b): follow outgoing edges; a TreeEdge to v is taken iff pos[v] < maxp,
\* pruned iff pos[v] > maxp, and is the Cycle error iff pos[v] = maxp
RECURSIVE Fwd(_, _)
Fwd(X, maxp) ==
    LET T == X \cup {e[2] : e \in {f \in eg : f[1] \in X /\ (Mutant = "no_trim" \/ pos[f[2]] < maxp)}}
    IN IF T = X THEN X ELSE Fwd(T, maxp)
FwdCycle(F, maxp) == \E f \in eg : f[1] \in F /\ pos[f[2]] = maxp
FwdAssert(F, minp) == \E f \in eg : f[1] \in F /\ pos[f[2]] < minp     \* debug_assert!(order >= min_position)

\* past_cone(start = a) on Reversed(graph), sharing `discovered` with the first run: nodes of F are never entered
RECURSIVE Bwd(_, _, _)
Bwd(X, minp, F) ==
    LET T == X \cup {e[1] : e \in {f \in eg : f[2] \in X /\ f[1] \notin F /\ (Mutant = "no_trim" \/ pos[f[1]] > minp)}}
    IN IF T = X THEN X ELSE Bwd(T, minp, F)
BwdUnreachable(P, minp, F) == \E f \in eg : f[2] \in P /\ f[1] \notin F /\ pos[f[1]] = minp   \* unreachable!("checked by future_cone")
BwdAssert(P, maxp, F) == \E f \in eg : f[2] \in P /\ f[1] \notin F /\ pos[f[1]] > maxp         \* debug_assert!(order <= max_position)

\* ---------------- actions
Log(o) == hist' = Append(hist, o)

Init == /\ live = {} /\ eg = {} /\ pos = [n \in Ids |-> 0] /\ free = <<>> /\ res = "ok" /\ panic = FALSE /\ hist = <<>>

NewId == IF Compact THEN Cardinality(live)
         ELSE IF free # <<>> THEN Head(free) ELSE Cardinality(live) + Len(free)
AddNode ==
    /\ NewId \in Ids
    /\ live' = live \cup {NewId}
    /\ pos' = [pos EXCEPT ![NewId] = MaxPos + 1]             \* OrderMap::add_node: last key + 1, or default
    /\ free' = IF ~Compact /\ free # <<>> THEN Tail(free) ELSE free
    /\ res' = "ok" /\ UNCHANGED <<eg, panic>>
    /\ Log([op |-> "ac_add_node", a |-> NewId, b |-> 0])

\* try_update_edge(a, b): update_ordering, then the inner update_edge (edge set semantics)
TryEdge(a, b) ==
    /\ a \in live /\ b \in live
    /\ Log([op |-> "ac_try_update_edge", a |-> a, b |-> b])
    /\ UNCHANGED <<live, free>>
    /\ IF a = b THEN res' = "SelfLoop" /\ UNCHANGED <<eg, pos, panic>>
       ELSE LET minp == pos[b]   maxp == pos[a] IN
            IF minp >= maxp
            THEN res' = "ok" /\ eg' = eg \cup {<<a, b>>} /\ UNCHANGED <<pos, panic>>        \* order is already correct
            ELSE LET F == Fwd({b}, maxp) IN
                 IF FwdCycle(F, maxp)
                 THEN res' = "Cycle" /\ UNCHANGED <<eg, pos>> /\ panic' = (panic \/ FwdAssert(F, minp))
                 ELSE LET P == Bwd({a}, minp, F)
                          allpos == SortedInts({pos[n] : n \in F \cup P})
                          nodes == IF Mutant = "fut_first" THEN ByPos(F) \o ByPos(P) ELSE ByPos(P) \o ByPos(F)
                      IN /\ res' = "ok"
                         /\ panic' = (panic \/ FwdAssert(F, minp) \/ BwdUnreachable(P, minp, F) \/ BwdAssert(P, maxp, F)
                                            \/ Len(allpos) # Len(nodes))            \* debug_assert_eq!(all_positions.len(), ..)
                         /\ pos' = [n \in Ids |-> IF \E i \in DOMAIN nodes : nodes[i] = n /\ i <= Len(allpos)
                                                  THEN allpos[CHOOSE i \in DOMAIN nodes : nodes[i] = n] ELSE pos[n]]
                         /\ eg' = eg \cup {<<a, b>>}

RemoveEdge(a, b) ==
    /\ <<a, b>> \in eg
    /\ eg' = eg \ {<<a, b>>} /\ res' = "ok" /\ UNCHANGED <<live, pos, free, panic>>
    /\ Log([op |-> "ac_remove_edge_between", a |-> a, b |-> b])

Ren(x, from, to) == IF x = from THEN to ELSE x
RemoveNode(a) ==
    /\ a \in live
    /\ Log([op |-> "ac_remove_node", a |-> a, b |-> 0])
    /\ res' = "ok" /\ UNCHANGED panic
    /\ IF ~Compact
       THEN /\ live' = live \ {a} /\ eg' = {e \in eg : e[1] # a /\ e[2] # a}
            /\ pos' = [pos EXCEPT ![a] = 0] /\ free' = <<a>> \o free
       ELSE LET last == Cardinality(live) - 1
                kept == {e \in eg : e[1] # a /\ e[2] # a} IN
            /\ live' = live \ {last} /\ free' = free
            /\ eg' = {<<Ren(e[1], last, a), Ren(e[2], last, a)>> : e \in kept}
            \* OrderMap::remove_node(a), then rename_node(last -> a) when another node was moved into a's index
            /\ pos' = IF a = last THEN [pos EXCEPT ![a] = 0]
                      ELSE IF Mutant = "no_rename" THEN [pos EXCEPT ![a] = 0]
                      ELSE [pos EXCEPT ![a] = pos[last], ![last] = 0]

Next == \/ AddNode
        \/ \E a, b \in Ids : TryEdge(a, b) \/ RemoveEdge(a, b)
        \/ \E a \in Ids : RemoveNode(a)
Spec == Init /\ [][Next]_vars

Bounded == Len(hist) <= MaxOps
\* state identity: positions only matter through their relative order
Rank(n) == Cardinality({m \in live : pos[m] < pos[n]})
View == <<live, eg, [n \in Ids |-> IF n \in live THEN Rank(n) ELSE -1], free, res, panic>>

\* ---------------- properties
TypeOK == /\ live \subseteq Ids /\ eg \subseteq (live \X live) /\ \A n \in Ids : pos[n] \in Nat
          /\ (Compact => live = 0 .. (Cardinality(live) - 1))
PosInj == \A m, n \in live : m # n => pos[m] # pos[n]
TopoOK == \A e \in eg : pos[e[1]] < pos[e[2]]
NoPanic == ~panic
Acyclic == \A e \in eg : ~Reaches(e[2], e[1], eg)
Inv == TypeOK /\ PosInj /\ TopoOK /\ NoPanic /\ Acyclic

\* the verdict of an insertion, against the independent definition, and "a refusal changes nothing"
Verdict ==
    [][\A a, b \in Ids : TryEdge(a, b) =>
          /\ res' = (IF a = b THEN "SelfLoop" ELSE IF Reaches(b, a, eg) THEN "Cycle" ELSE "ok")
          /\ (res' # "ok" => UNCHANGED <<live, eg, pos, free>>)
          /\ (res' = "ok" => eg' = eg \cup {<<a, b>>})]_vars

\* one line per distinct state: the history that reaches it and the order the model predicts there
Export == PrintT(<<"PATH", ToJson([hist |-> hist, order |-> ByPos(live), compact |-> Compact])>>)
============================================================================
