----------------------------- MODULE StableCover -----------------------------
(* State cover of StableAbs (see GraphCover): one shortest history per distinct abstract state of the
   StableGraph model, vacancies included.  New elements take the lowest free index in the model; the
   real code may choose another one - the replayed trace is validated, not compared.            *)
EXTENDS StableAbs, Json, TLC

VARIABLE hist
cvars == <<nd, ed, dir, maxix, stamp, ret, pending, hist>>
H(op) == hist' = Append(hist, op)

CInit == Init /\ hist = <<[op |-> "reset", kind |-> "stable", directed |-> dir]>>
CNext ==
    \/ \E w \in W, i \in 0 .. 2 : AddNodeAt(w, i, "i") /\ H([op |-> "add_node"])
    \/ \E a, b, e \in 0 .. 2, w \in W : AddEdge(a, b, w, e) /\ ret'[1] = "i" /\ H([op |-> "add_edge", a |-> a, b |-> b])
    \/ \E e \in 0 .. 2 : RemoveEdge(e) /\ ret'[1] = "i" /\ H([op |-> "remove_edge", e |-> e])
    \/ \E a \in 0 .. 2 : RemoveNode(a) /\ ret'[1] = "i" /\ H([op |-> "remove_node", a |-> a])
CSpec == CInit /\ [][CNext]_cvars

CoverView == <<nd, [i \in DOMAIN ed |-> <<ed[i].s, ed[i].t, Cardinality({j \in DOMAIN ed : ed[j].w # -1 /\ ed[j].k < ed[i].k})>>], dir>>
CoverInv == PrintT(<<"COVER", ToJson(hist)>>)
=============================================================================
