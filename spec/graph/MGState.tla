----------------------------- MODULE MGState -----------------------------
(* The "plain mathematical multigraph" that C01 (Graph) and C02 (StableGraph)
   are compared with, and every query of the public API defined on it.

   nd    node slots, nd[i+1] = weight of node i, or -1 for a vacant slot
   ed    edge slots, ed[e+1] = [s,t,w,k]; w = -1 marks a vacant slot;
         k is a ghost insertion stamp: a directed node lists its edges
         most-recently-added first, i.e. by descending k
   dir   TRUE = Directed
   maxix the index type's max() (= the end() sentinel): at most maxix nodes/edges
   Weights are non-negative integers.  Results are tagged tuples (see uf/).   *)
EXTENDS Integers, Sequences, FiniteSets, SequencesExt

VARIABLES nd, ed, dir, maxix, stamp, ret,
          pending    \* ghost: weights still to be visited by a running retain_*

gvars == <<nd, ed, dir, maxix, stamp>>

VacE == [s |-> -1, t |-> -1, w |-> -1, k |-> -1]

NSlots == Len(nd)
ESlots == Len(ed)
NLive(i) == i >= 0 /\ i < Len(nd) /\ nd[i + 1] # -1
ELive(e) == e >= 0 /\ e < Len(ed) /\ ed[e + 1].w # -1
LiveN == {i \in 0 .. (Len(nd) - 1) : nd[i + 1] # -1}
LiveE == {e \in 0 .. (Len(ed) - 1) : ed[e + 1].w # -1}
Ed(e) == ed[e + 1]

Max0(S) == IF S = {} THEN -1 ELSE CHOOSE m \in S : \A x \in S : x <= m
NodeCount == Cardinality(LiveN)
EdgeCount == Cardinality(LiveE)
NodeBound == Max0(LiveN) + 1
EdgeBound == Max0(LiveE) + 1

Asc(S)  == SetToSortSeq(S, LAMBDA x, y : x < y)
Desc(S) == SetToSortSeq(S, LAMBDA x, y : x > y)
ByStamp(S) == SetToSortSeq(S, LAMBDA x, y : Ed(x).k > Ed(y).k)     \* most recent first
Rev(s) == Reverse(s)
SeqBag(s) == [x \in {s[i] : i \in DOMAIN s} |-> Cardinality({i \in DOMAIN s : s[i] = x})]
SetBag(f(_), S) == LET vals == {f(x) : x \in S} IN [v \in vals |-> Cardinality({x \in S : f(x) = v})]
BagEq(s, f(_), S) == SeqBag(s) = SetBag(f, S)

Out(a) == {e \in LiveE : Ed(e).s = a}
In(a)  == {e \in LiveE : Ed(e).t = a}
Inc(a) == Out(a) \cup In(a)
Other(e, a) == IF Ed(e).s = a THEN Ed(e).t ELSE Ed(e).s

(* ---- well-formedness of the abstract state (checked in every state) ---- *)
WF == /\ \A e \in LiveE : NLive(Ed(e).s) /\ NLive(Ed(e).t) /\ Ed(e).w >= 0
      /\ \A e, f \in LiveE : e # f => Ed(e).k # Ed(f).k
      /\ \A e \in LiveE : Ed(e).k < stamp
      /\ \A e \in 0 .. (Len(ed) - 1) : ~ELive(e) => ed[e + 1] = VacE
      /\ Len(nd) <= maxix /\ Len(ed) <= maxix

(* ---- queries: what each public call must return in the current state ---- *)
QNodeWeight(a) == IF NLive(a) THEN <<"i", nd[a + 1]>> ELSE <<"none">>
QEdgeWeight(e) == IF ELive(e) THEN <<"i", Ed(e).w>> ELSE <<"none">>
QEndpoints(e)  == IF ELive(e) THEN <<"li", <<Ed(e).s, Ed(e).t>>>> ELSE <<"none">>

(* edges a->b (either orientation when undirected) *)
Conn(a, b) == IF dir THEN {e \in Out(a) : Ed(e).t = b}
              ELSE {e \in Inc(a) : Other(e, a) = b}
\* find_edge may return ANY connecting edge; None iff there is none
FindEdgeOK(a, b, r) == IF Conn(a, b) = {} THEN r = <<"none">>
                       ELSE r[1] = "i" /\ r[2] \in Conn(a, b)
\* find_edge_undirected: <<"li", <<e, d>>>>, d = 0 Outgoing (a->b), 1 Incoming (b->a)
FindEdgeUndOK(a, b, r) ==
    LET fw == {e \in Out(a) : Ed(e).t = b}   bw == {e \in In(a) : Ed(e).s = b} IN
    IF fw \cup bw = {} THEN r = <<"none">>
    ELSE r[1] = "li" /\ ((r[2][2] = 0 /\ r[2][1] \in fw) \/ (r[2][2] = 1 /\ r[2][1] \in bw))

(* the tuple edges_directed reports for edge e when asked at node a in direction d *)
ERef(e) == <<e, Ed(e).s, Ed(e).t, Ed(e).w>>
ERefAt(e, a, d) == IF dir THEN ERef(e)
                   ELSE IF d = 0 THEN <<e, a, Other(e, a), Ed(e).w>>
                        ELSE <<e, Other(e, a), a, Ed(e).w>>
\* directed: exact sequence; undirected: each incident edge once (self-loop once), any order
EdgesDirectedOK(a, d, s) ==
    IF dir THEN s = [i \in 1 .. Cardinality(IF d = 0 THEN Out(a) ELSE In(a)) |->
                        ERef(ByStamp(IF d = 0 THEN Out(a) ELSE In(a))[i])]
    ELSE LET f(e) == ERefAt(e, a, d) IN BagEq(s, f, Inc(a))
NeighborsDirectedOK(a, d, s) ==
    IF dir THEN LET es == ByStamp(IF d = 0 THEN Out(a) ELSE In(a)) IN
                s = [i \in 1 .. Len(es) |-> IF d = 0 THEN Ed(es[i]).t ELSE Ed(es[i]).s]
    ELSE LET f(e) == Other(e, a) IN BagEq(s, f, Inc(a))
\* neighbors_undirected: every incident edge's other endpoint, a self-loop once
NeighborsUndirectedOK(a, s) == LET f(e) == Other(e, a) IN
    SeqBag(s) = SetBag(f, Inc(a))
    \* note SetBag counts edges, so parallel edges and a<->b pairs give multiplicity
\* walker: <<e, n>> pairs, same order convention as neighbors_directed
WalkOK(a, d, s) ==
    IF dir THEN LET es == ByStamp(IF d = 0 THEN Out(a) ELSE In(a)) IN
                s = [i \in 1 .. Len(es) |-> <<es[i], IF d = 0 THEN Ed(es[i]).t ELSE Ed(es[i]).s>>]
    ELSE LET f(e) == <<e, Other(e, a)>> IN BagEq(s, f, Inc(a))
\* edges_connecting(a,b): the connecting edges, in list order when directed
EdgesConnectingOK(a, b, s) ==
    IF dir THEN LET es == ByStamp(Conn(a, b)) IN s = [i \in 1 .. Len(es) |-> ERef(es[i])]
    ELSE LET f(e) == <<e, a, b, Ed(e).w>> IN BagEq(s, f, Conn(a, b))
\* externals(d): nodes without edges in direction d (without any edge when undirected), ascending
Externals(d) == Asc({a \in LiveN : IF dir THEN (IF d = 0 THEN Out(a) ELSE In(a)) = {} ELSE Inc(a) = {}})

NodeRefs == LET s == Asc(LiveN) IN [i \in 1 .. Len(s) |-> <<s[i], nd[s[i] + 1]>>]
EdgeRefs == LET s == Asc(LiveE) IN [i \in 1 .. Len(s) |-> ERef(s[i])]

(* ---- full observation record logged by the harness (op = "obs") ---- *)
PerOK(p) ==
    /\ EdgesDirectedOK(p.a, 0, p.eo) /\ EdgesDirectedOK(p.a, 1, p.ei)
    /\ NeighborsDirectedOK(p.a, 0, p.no) /\ NeighborsDirectedOK(p.a, 1, p.ni)
    /\ EdgesDirectedOK(p.a, 0, p.eo2) /\ NeighborsDirectedOK(p.a, 0, p.no2)      \* edges(a), neighbors(a)
    /\ NeighborsUndirectedOK(p.a, p.nu)
    /\ WalkOK(p.a, 0, p.wo) /\ WalkOK(p.a, 1, p.wi)
    /\ p.nw = QNodeWeight(p.a)
\* Graph's public accessors to its internals: raw_nodes / raw_edges / into_nodes_edges are the slots in index order,
\* first_edge + next_edge walk the stored out / in list of a node (most recent first; stored orientation also when undirected)
RawOK(r) ==
    LET slots == [i \in DOMAIN ed |-> <<ed[i].s, ed[i].t, ed[i].w>>] IN
    /\ r.nodes = nd /\ r.ine_nodes = nd
    /\ r.edges = slots /\ r.ine_edges = slots
    /\ \A i \in DOMAIN r.co : r.co[i] = ByStamp(Out(i - 1))
    /\ \A i \in DOMAIN r.ci : r.ci[i] = ByStamp(In(i - 1))
PairOK(p) ==
    /\ p.adj = (IF NLive(p.a) /\ NLive(p.b) THEN <<"b", Conn(p.a, p.b) # {}>> ELSE <<"none">>)      \* adjacency_matrix + is_adjacent
    /\ FindEdgeOK(p.a, p.b, p.fe)
    /\ p.ce = (Conn(p.a, p.b) # {})
    /\ FindEdgeUndOK(p.a, p.b, p.fu)
    /\ EdgesConnectingOK(p.a, p.b, p.ec)
EdgeQOK(p) == /\ p.w = QEdgeWeight(p.e) /\ p.ep = QEndpoints(p.e)

ObsOK(o) ==
    /\ o.nc = NodeCount /\ o.ec = EdgeCount
    /\ o.tr = <<NodeCount, EdgeCount, NodeBound, EdgeBound>>        \* visit::{NodeCount, EdgeCount, NodeIndexable, EdgeIndexable}
    /\ o.directed = dir
    /\ o.nodes = NodeRefs /\ o.edges = EdgeRefs
    /\ o.edges_rev = [i \in 1 .. Len(EdgeRefs) |-> EdgeRefs[Len(EdgeRefs) + 1 - i]]           \* DoubleEndedIterator
    /\ o.nodes_rev = [i \in 1 .. Len(NodeRefs) |-> NodeRefs[Len(NodeRefs) + 1 - i]]
    /\ o.edges_mix = [i \in 1 .. Len(EdgeRefs) |-> IF i % 2 = 1 THEN EdgeRefs[(i + 1) \div 2]      \* next / next_back alternating
                                                   ELSE EdgeRefs[Len(EdgeRefs) + 1 - (i \div 2)]]
    /\ o.nidx = Asc(LiveN) /\ o.nidx_rev = Desc(LiveN)
    /\ o.eidx = Asc(LiveE) /\ o.eidx_rev = Desc(LiveE)
    /\ o.nws = [i \in 1 .. NodeCount |-> NodeRefs[i][2]]
    /\ o.ews = [i \in 1 .. EdgeCount |-> EdgeRefs[i][4]]
    /\ o.ext_o = Externals(0) /\ o.ext_i = Externals(1)
    /\ \A i \in DOMAIN o.per : PerOK(o.per[i])
    /\ \A i \in DOMAIN o.pairs : PairOK(o.pairs[i])
    /\ \A i \in DOMAIN o.eq : EdgeQOK(o.eq[i])

    /\ o.nb = NodeBound /\ o.eb = EdgeBound
    /\ \A i \in DOMAIN o.cn : o.cn[i] = NLive(i - 1)        \* contains_node for 0..bound
    /\ (IF "raw" \in DOMAIN o THEN RawOK(o.raw) ELSE TRUE)

(* the projection attached to mutating events: st = [nd |-> .., ed |-> <<<<s,t,w>>..>>], the slots up
   to node_bound / edge_bound (-1 = vacant).  The abstract state is canonical (no trailing
   vacancies), so the projection must equal it. *)
StMatches(st) ==
    /\ st.nd = nd /\ Len(st.ed) = Len(ed)
    /\ \A i \in DOMAIN ed : st.ed[i] = <<ed[i].s, ed[i].t, ed[i].w>>
\* the same about the NEXT state (written with explicit primes so that the argument is not primed)
StMatchesN(st) ==
    /\ st.nd = nd' /\ Len(st.ed) = Len(ed')
    /\ \A i \in DOMAIN ed' : st.ed[i] = <<ed'[i].s, ed'[i].t, ed'[i].w>>
=============================================================================
