SPECIFICATION Spec
CONSTANTS MaxN = 4
  MaxOps = 7
  Compact = FALSE
  Mutant = "none"
CONSTRAINT Bounded
VIEW View
INVARIANT Inv
PROPERTY Verdict
CHECK_DEADLOCK FALSE
