SPECIFICATION Spec
CONSTANTS MaxIxC = 3
          W = {1}
          ReverseTouchesVacant = TRUE
INVARIANT Inv
VIEW MCView
CHECK_DEADLOCK FALSE
