SPECIFICATION CSpec
CONSTANTS W = {1}
          MaxIxC = 3
INVARIANT CoverInv
VIEW CoverView
CHECK_DEADLOCK FALSE
