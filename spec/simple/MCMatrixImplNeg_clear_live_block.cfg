SPECIFICATION Spec
CONSTANTS MaxId = 4
  MaxOps = 9
  Directed = TRUE
  Mutant = "clear_live_block"
CONSTRAINT Bounded
VIEW View
INVARIANT Inv
CHECK_DEADLOCK FALSE
