SPECIFICATION Spec
CONSTANTS MaxN = 3
  MaxOps = 9
  Cutoff = 2
  Directed = TRUE
  Mutant = "no_offset"
CONSTRAINT Bounded
VIEW View
INVARIANT Inv
CHECK_DEADLOCK FALSE
