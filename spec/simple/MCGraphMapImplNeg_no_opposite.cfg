SPECIFICATION Spec
CONSTANTS Keys = {0, 1, 2}
  MaxOps = 5
  Directed = TRUE
  Mutant = "no_opposite"
CONSTRAINT Bounded
VIEW View
INVARIANT Inv
CHECK_DEADLOCK FALSE
