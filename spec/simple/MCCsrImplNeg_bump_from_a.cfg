SPECIFICATION Spec
CONSTANTS MaxN = 3
  MaxOps = 9
  Cutoff = 2
  Directed = TRUE
  Mutant = "bump_from_a"
CONSTRAINT Bounded
VIEW View
INVARIANT Inv
CHECK_DEADLOCK FALSE
