------------------------------ MODULE SGTrace ------------------------------
(* Trace validation for C03 (GraphMap), C04 (MatrixGraph), C05 (Csr, adj::List) against SGAbs. *)
EXTENDS SGAbs, Json, IOUtils, TLC

Rec == ndJsonDeserialize(IOEnv.TRACE)
CONSTANT DbgAt
VARIABLE l
tvars == <<kind, dir, nodes, E, stamp, ret, l>>

Ev == Rec[l]
IsEv(o) == l <= Len(Rec) /\ Ev.op = o /\ l' = l + 1
Is(k) == kind = k
Bind == ret' = Ev.ret /\ Cardinality(DOMAIN nodes') = Ev.nc /\ Cardinality(E') = Ev.ec

TraceInit == l = 1 /\ kind = "csr" /\ dir = TRUE /\ nodes = Ident /\ E = {} /\ stamp = 0 /\ ret = <<"s", "ok">>

TrReset == IsEv("reset") /\ Reset(Ev.kind, Ev.directed)
TrAddNode == IsEv("add_node") /\
    (IF Is("csr") THEN CsrAddNode(Ev.w) ELSE IF Is("list") THEN ListAddNode
     ELSE IF Is("map") THEN MapAddNode(Ev.n) ELSE (Ev.ret[1] = "i" /\ MxAddNode(Ev.w, Ev.ret[2]))) /\ Bind
TrRemoveNode == IsEv("remove_node") /\ (IF Is("map") THEN MapRemoveNode(Ev.n) ELSE MxRemoveNode(Ev.a)) /\ Bind
TrTryAddEdge == IsEv("try_add_edge") /\ Is("csr") /\ CsrTryAddEdge(Ev.a, Ev.b, Ev.w) /\ Bind
TrAddEdge == IsEv("add_edge") /\
    (IF Is("csr") THEN CsrAddEdge(Ev.a, Ev.b, Ev.w) ELSE IF Is("list") THEN ListAddEdge(Ev.a, Ev.b, Ev.w)
     ELSE IF Is("map") THEN MapAddEdge(Ev.a, Ev.b, Ev.w) ELSE MxAddEdge(Ev.a, Ev.b, Ev.w)) /\ Bind
TrUpdateEdge == IsEv("update_edge") /\
    (IF Is("list") THEN ListUpdateEdge(Ev.a, Ev.b, Ev.w) ELSE Is("matrix") /\ MxUpdateEdge(Ev.a, Ev.b, Ev.w, FALSE)) /\ Bind
TrTryUpdateEdge == IsEv("try_update_edge") /\ Is("matrix") /\ (MxUpdateEdge(Ev.a, Ev.b, Ev.w, TRUE) \/ MxTryRefused) /\ Bind
TrRemoveEdge == IsEv("remove_edge") /\ (IF Is("map") THEN MapRemoveEdge(Ev.a, Ev.b) ELSE Is("matrix") /\ MxRemoveEdge(Ev.a, Ev.b, FALSE)) /\ Bind
TrTryRemoveEdge == IsEv("try_remove_edge") /\ Is("matrix") /\ MxRemoveEdge(Ev.a, Ev.b, TRUE) /\ Bind
TrSetEdgeWeight == IsEv("set_edge_weight") /\ SetEdgeWeight(Ev.a, Ev.b, Ev.w, IF Ev.via \in {"index_mut", "mx_edge_weight_mut"} THEN <<"panic">> ELSE <<"none">>) /\ Bind
TrSetNodeWeight == IsEv("set_node_weight") /\ Is("matrix") /\ MxSetNodeWeight(Ev.a, Ev.w) /\ Bind
TrClearEdges == IsEv("clear_edges") /\ ClearEdges /\ Bind
TrClear == IsEv("clear") /\ Clear /\ Bind
TrFromSorted == IsEv("from_sorted") /\ CsrFromSorted(Ev.edges) /\ Bind
TrExtend == IsEv("extend") /\ (IF Is("map") THEN MapExtend(Ev.edges) ELSE Is("matrix") /\ MxExtend(Ev.edges)) /\ Bind
\* add_or_update_edge grows the matrix first, so between existing nodes it is never refused
TrAddOrUpdateEdge == IsEv("add_or_update_edge") /\ Is("matrix") /\ MxUpdateEdge(Ev.a, Ev.b, Ev.w, TRUE) /\ Bind
TrLoad == IsEv("load") /\ Is("map") /\ MapLoad(Ev.nodes, Ev.edges) /\ Bind
TrListAddNodeFrom == IsEv("add_node_from_edges") /\ Is("list") /\ ListAddNodeFrom(Ev.edges) /\ Bind
TrListSetEdgeWeight == IsEv("list_set_edge_weight") /\ Is("list") /\ ListSetEdgeWeight(Ev.a, Ev.rank, Ev.w) /\ Bind
TrMapBuildAddEdge == IsEv("build_add_edge") /\ Is("map") /\ MapBuildAddEdge(Ev.a, Ev.b, Ev.w) /\ Bind
TrMapBuildUpdateEdge == IsEv("build_update_edge") /\ Is("map") /\ MapBuildUpdateEdge(Ev.a, Ev.b, Ev.w) /\ Bind
TrMapFromElements == IsEv("from_elements") /\ Is("map") /\ MapFromElements(Ev.nodes, Ev.edges) /\ Bind
TrNoEffect == IsEv("noeffect") /\ NoEffect /\ Bind
\* the IF makes TLC evaluate ObsOK as a state predicate (otherwise its inner disjunctions are expanded
\* as alternative ways to build the successor state)
TrObs == IsEv("obs") /\ (IF ObsOK(Ev) THEN UNCHANGED svars ELSE FALSE)

TraceNext == \/ TrReset \/ TrAddNode \/ TrRemoveNode \/ TrTryAddEdge \/ TrAddEdge \/ TrUpdateEdge \/ TrTryUpdateEdge
             \/ TrRemoveEdge \/ TrTryRemoveEdge \/ TrSetEdgeWeight \/ TrSetNodeWeight \/ TrClearEdges \/ TrClear
             \/ TrFromSorted \/ TrExtend \/ TrAddOrUpdateEdge \/ TrLoad \/ TrListAddNodeFrom \/ TrListSetEdgeWeight \/ TrMapBuildAddEdge \/ TrMapBuildUpdateEdge \/ TrMapFromElements \/ TrNoEffect \/ TrObs
TraceSpec == TraceInit /\ [][TraceNext]_tvars
TraceInv == WF /\ l # DbgAt

Matched == TLCGet("stats").diameter - 1
TraceAccepted == IF Matched = Len(Rec) THEN TRUE
                 ELSE PrintT(<<"REJECTED", Matched + 1, Rec[Matched + 1].op>>) /\ FALSE
============================================================================
