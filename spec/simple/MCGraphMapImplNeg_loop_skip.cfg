SPECIFICATION Spec
CONSTANTS Keys = {0, 1, 2}
  MaxOps = 5
  Directed = TRUE
  Mutant = "loop_skip"
CONSTRAINT Bounded
VIEW View
INVARIANT Inv
CHECK_DEADLOCK FALSE
