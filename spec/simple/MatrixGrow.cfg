SPECIFICATION FairSpec
CONSTANTS MaxOld = 6
  MaxReq = 9
  Mutant = "none"
INVARIANTS TypeOK Laid NoLoss Progress CapOK
PROPERTY Terminates
CHECK_DEADLOCK FALSE
