----------------------------- MODULE MatrixImpl -----------------------------
(* Implementation-shaped model of MatrixGraph's node-id bookkeeping and of the way removal cleans the adjacency
   matrix (src/matrix_graph.rs: IdStorage::add / remove / iter_ids, IdIterator::next, MatrixGraph::remove_node,
   update_edge, remove_edge).  The layout of the matrix in memory and its growth are the subject of MatrixGrow.tla;
   here a cell is just a pair of ids.

     ub        IdStorage::upper_bound
     removed   IdStorage::removed_ids, an insertion-ordered set whose LAST element is reused first (IndexSet::pop)
     cells     the non-null cells of the matrix: <<r, c>> (undirected: r >= c)
     nb        MatrixGraph::nb_edges

   remove_node(a) walks iter_ids() - the ids below ub that are not in removed, produced by IdIterator's
   advance-then-skip loop, which is transcribed step by step - and clears (a, id) and, when directed, (id, a), counting
   nb down for every non-null cell; then the id is released: the top id lowers ub, any other id joins removed.

   The invariant that makes id reuse safe is CleanVacant: no cell names an id that is not live - so a reused id starts
   without edges.  Also: IterOK (the iterator yields exactly the live ids, ascending), NbOK, RemovedOK.           *)
EXTENDS Integers, Sequences, FiniteSets, TLC, Json, SequencesExt

CONSTANTS MaxId,      \* ids 0..MaxId-1
          MaxOps, Directed,
          Mutant      \* "none" | "skip_one" | "clear_upto_count" | "no_incoming_clear" | "clear_live_block" | "always_push_removed" (an equivalent variant: never lowering ub is also correct)

VARIABLES ub, removed, cells, nb, res, hist
vars == <<ub, removed, cells, nb, res, hist>>

RemovedSet == {removed[i] : i \in DOMAIN removed}
Live == {i \in 0 .. (ub - 1) : i \notin RemovedSet}
Cell(a, b) == IF Directed \/ a >= b THEN <<a, b>> ELSE <<b, a>>

\* IdIterator::next, called until None: `cur` is Option<usize> (-1 = None)
RECURSIVE SkipRemoved(_)
SkipRemoved(c) == IF c \in RemovedSet /\ c < ub THEN SkipRemoved(c + 1) ELSE c
RECURSIVE IterFrom(_, _)
IterFrom(cur, acc) ==
    LET adv == IF cur = -1 THEN 0 ELSE cur + 1
        c == IF Mutant = "skip_one" THEN (IF adv \in RemovedSet /\ adv < ub THEN adv + 1 ELSE adv) ELSE SkipRemoved(adv)
    IN IF c < ub THEN IterFrom(c, Append(acc, c)) ELSE acc
IterIds == IterFrom(-1, <<>>)

Log(o) == hist' = Append(hist, [o EXCEPT !.res = res'])
Init == ub = 0 /\ removed = <<>> /\ cells = {} /\ nb = 0 /\ res = -1 /\ hist = <<>>

AddNode ==
    /\ IF removed # <<>>
       THEN res' = removed[Len(removed)] /\ removed' = SubSeq(removed, 1, Len(removed) - 1) /\ ub' = ub
       ELSE ub < MaxId /\ res' = ub /\ ub' = ub + 1 /\ removed' = removed
    /\ UNCHANGED <<cells, nb>>
    /\ Log([op |-> "add_node", a |-> 0, b |-> 0, res |-> 0])

UpdateEdge(a, b) ==
    /\ a \in Live /\ b \in Live
    /\ cells' = cells \cup {Cell(a, b)}
    /\ nb' = IF Cell(a, b) \in cells THEN nb ELSE nb + 1
    /\ res' = (IF Cell(a, b) \in cells THEN 1 ELSE 0) /\ UNCHANGED <<ub, removed>>
    /\ Log([op |-> "update_edge", a |-> a, b |-> b, res |-> 0])

RemoveEdge(a, b) ==
    /\ a \in Live /\ b \in Live /\ Cell(a, b) \in cells
    /\ cells' = cells \ {Cell(a, b)} /\ nb' = nb - 1 /\ res' = 1 /\ UNCHANGED <<ub, removed>>
    /\ Log([op |-> "remove_edge", a |-> a, b |-> b, res |-> 0])

\* the loop of remove_node over iter_ids()
RECURSIVE ClearLoop(_, _, _, _)
ClearLoop(ids, a, cs, n) ==
    IF ids = <<>> THEN <<cs, n>>
    ELSE LET id == Head(ids)
             c1 == Cell(a, id)
             cs1 == cs \ {c1}                  n1 == IF c1 \in cs THEN n - 1 ELSE n
             c2 == <<id, a>>
             second == Directed /\ Mutant # "no_incoming_clear"
             cs2 == IF second THEN cs1 \ {c2} ELSE cs1
             n2 == IF second /\ c2 \in cs1 THEN n1 - 1 ELSE n1
         IN ClearLoop(Tail(ids), a, cs2, n2)
RemoveNode(a) ==
    /\ a \in Live
    /\ LET ids == IF Mutant = "clear_upto_count" THEN [i \in 1 .. (ub - Len(removed)) |-> i - 1] ELSE IterIds
           r == ClearLoop(ids, a, cells, nb) IN
       cells' = r[1] /\ nb' = r[2]
    /\ IF ub - a = 1 /\ Mutant # "always_push_removed" THEN ub' = ub - 1 /\ removed' = removed
       ELSE ub' = ub /\ removed' = Append(removed, a)
    /\ res' = a
    /\ Log([op |-> "remove_node", a |-> a, b |-> 0, res |-> 0])

\* clear(): ids and the WHOLE matrix are reset (a cell left behind would be inherited by a re-issued id)
Clear ==
    /\ ub' = 0 /\ removed' = <<>> /\ nb' = 0 /\ res' = 0
    /\ cells' = IF Mutant = "clear_live_block" THEN {c \in cells : c[1] >= ub - Len(removed) \/ c[2] >= ub - Len(removed)} ELSE {}
    /\ Log([op |-> "clear", a |-> 0, b |-> 0, res |-> 0])

Next == Clear \/ AddNode \/ (\E a \in 0 .. (MaxId - 1) : RemoveNode(a) \/ \E b \in 0 .. (MaxId - 1) : UpdateEdge(a, b) \/ RemoveEdge(a, b))
Spec == Init /\ [][Next]_vars
Bounded == Len(hist) <= MaxOps
View == <<ub, removed, cells, nb>>

RemovedOK == /\ Cardinality(RemovedSet) = Len(removed) /\ \A i \in RemovedSet : i < ub
IterOK == IterIds = SetToSortSeq(Live, LAMBDA x, y : x < y)
CleanVacant == \A c \in cells : c[1] \in Live /\ c[2] \in Live
NbOK == nb = Cardinality(cells)
Inv == RemovedOK /\ IterOK /\ CleanVacant /\ NbOK

Export == PrintT(<<"MXI", ToJson([hist |-> hist, directed |-> Directed, live |-> SetToSortSeq(Live, LAMBDA x, y : x < y),
                                  cells |-> SetToSeq(cells), nb |-> nb])>>)
=============================================================================
