SPECIFICATION Spec
CONSTANTS MaxOld = 6
  MaxReq = 9
  Mutant = "rows_from_2"
INVARIANTS TypeOK Laid NoLoss Progress CapOK
CHECK_DEADLOCK FALSE
