SPECIFICATION Spec
CONSTANTS MaxN = 3
  MaxOps = 9
  Cutoff = 2
  Directed = FALSE
  Mutant = "und_one_row"
CONSTRAINT Bounded
VIEW View
INVARIANT Inv
CHECK_DEADLOCK FALSE
