SPECIFICATION Spec
CONSTANTS Keys = {0, 1, 2}
  MaxOps = 7
  Directed = TRUE
  Mutant = "none"
CONSTRAINT Bounded
VIEW View
INVARIANT Inv
CHECK_DEADLOCK FALSE
