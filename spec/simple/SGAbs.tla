------------------------------- MODULE SGAbs -------------------------------
(* C03 GraphMap, C04 MatrixGraph, C05 Csr and adj::List: the simple-graph containers.
   One abstract state for all four:
     nodes  function  node id -> weight   (DOMAIN = live nodes; for GraphMap id = key = weight)
     E      set of records [a, b, w, k]   (k = insertion stamp; a -> b; for an undirected graph
            the record stands for the unordered pair)
     dir    TRUE = directed
   The actions are per container (`kind` = "csr" | "list" | "map" | "matrix").           *)
EXTENDS Integers, Sequences, FiniteSets, SequencesExt, FiniteSetsExt

VARIABLES kind, dir, nodes, E, stamp, ret
svars == <<kind, dir, nodes, E, stamp, ret>>

Live == DOMAIN nodes
N == Cardinality(Live)
Ident == [x \in {} |-> 0]
Asc(S) == SetToSortSeq(S, LAMBDA x, y : x < y)
SeqRange(s) == {s[i] : i \in DOMAIN s}
SeqBag(s) == [x \in SeqRange(s) |-> Cardinality({i \in DOMAIN s : s[i] = x})]
NoDup(s) == Len(s) = Cardinality(SeqRange(s))

\* edges that connect a to b in the container's sense
Conn(a, b) == {e \in E : (e.a = a /\ e.b = b) \/ (~dir /\ e.a = b /\ e.b = a)}
Has(a, b) == Conn(a, b) # {}
TheEdge(a, b) == CHOOSE e \in Conn(a, b) : TRUE
Out(a) == {e \in E : e.a = a} \cup (IF dir THEN {} ELSE {e \in E : e.b = a})
In(a)  == {e \in E : e.b = a} \cup (IF dir THEN {} ELSE {e \in E : e.a = a})
Other(e, a) == IF e.a = a THEN e.b ELSE e.a

Simple == \A e, f \in E : e # f => ~((e.a = f.a /\ e.b = f.b) \/ (~dir /\ e.a = f.b /\ e.b = f.a))
WF == /\ \A e \in E : e.a \in Live /\ e.b \in Live
      /\ (kind # "list" => Simple)
      /\ (kind \in {"csr", "list"} => Live = 0 .. (N - 1))

Unch == UNCHANGED <<kind, dir, nodes, E, stamp>>
Same2 == UNCHANGED <<kind, dir>>
AddE(a, b, w) == E' = E \cup {[a |-> a, b |-> b, w |-> w, k |-> stamp]} /\ stamp' = stamp + 1

Reset(kd, d) == /\ kind' = kd /\ dir' = d /\ nodes' = Ident /\ E' = {} /\ stamp' = 0 /\ ret' = <<"s", "ok">>

--------------------------------------------------------------------------
\* ---- Csr
CsrAddNode(w) == /\ nodes' = [x \in Live \cup {N} |-> IF x = N THEN w ELSE nodes[x]]
                 /\ ret' = <<"i", N>> /\ UNCHANGED <<E, stamp>> /\ Same2
InB(a, b) == a \in Live /\ b \in Live
CsrTryAddEdge(a, b, w) ==
    /\ IF ~InB(a, b) THEN ret' = <<"err_s", "IndicesOutBounds">> /\ Unch
       ELSE IF Has(a, b) THEN ret' = <<"ok_b", FALSE>> /\ Unch
       ELSE ret' = <<"ok_b", TRUE>> /\ AddE(a, b, w) /\ UNCHANGED nodes /\ Same2
CsrAddEdge(a, b, w) ==
    /\ IF ~InB(a, b) THEN ret' = <<"panic">> /\ Unch
       ELSE IF Has(a, b) THEN ret' = <<"b", FALSE>> /\ Unch
       ELSE ret' = <<"b", TRUE>> /\ AddE(a, b, w) /\ UNCHANGED nodes /\ Same2
ClearEdges == E' = {} /\ ret' = <<"s", "ok">> /\ UNCHANGED <<nodes, stamp>> /\ Same2
\* from_sorted_edges (directed): Ok iff strictly increasing in (source, target)
StrictlySorted(l) == \A i \in 1 .. (Len(l) - 1) : l[i][1] < l[i + 1][1] \/ (l[i][1] = l[i + 1][1] /\ l[i][2] < l[i + 1][2])
CsrFromSorted(l) ==
    /\ kind' = "csr" /\ dir' = TRUE
    /\ IF StrictlySorted(l)
       THEN LET mx == IF l = <<>> THEN -1 ELSE Max({l[i][1] : i \in DOMAIN l} \cup {l[i][2] : i \in DOMAIN l}) IN
            /\ nodes' = [x \in 0 .. mx |-> 0]
            /\ E' = {[a |-> l[i][1], b |-> l[i][2], w |-> l[i][3], k |-> i] : i \in DOMAIN l}
            /\ stamp' = Len(l) + 1 /\ ret' = <<"s", "ok">>
       ELSE nodes' = Ident /\ E' = {} /\ stamp' = 0 /\ ret' = <<"err_s", "EdgesNotSorted">>

--------------------------------------------------------------------------
\* ---- adj::List
ListAddNode == /\ nodes' = [x \in Live \cup {N} |-> 0] /\ ret' = <<"i", N>> /\ UNCHANGED <<E, stamp>> /\ Same2
Row(a) == SetToSortSeq({e \in E : e.a = a}, LAMBDA x, y : x.k < y.k)       \* insertion order
Rank(e) == Cardinality({f \in E : f.a = e.a /\ f.k < e.k})
ListAddEdge(a, b, w) ==
    /\ IF ~InB(a, b) THEN ret' = <<"panic">> /\ Unch
       ELSE ret' = <<"li", <<a, Len(Row(a))>>>> /\ AddE(a, b, w) /\ UNCHANGED nodes /\ Same2
\* update_edge: first edge a -> b gets the weight, else a new edge; an out-of-range endpoint is an error
ListUpdateEdge(a, b, w) ==
    /\ IF ~InB(a, b) THEN ret' = <<"panic">> /\ Unch
       ELSE LET m == {e \in E : e.a = a /\ e.b = b} IN
            IF m = {} THEN ret' = <<"li", <<a, Len(Row(a))>>>> /\ AddE(a, b, w) /\ UNCHANGED nodes /\ Same2
            ELSE LET f == CHOOSE e \in m : \A g \in m : e.k <= g.k IN
                 /\ E' = (E \ {f}) \cup {[f EXCEPT !.w = w]} /\ ret' = <<"li", <<a, Rank(f)>>>>
                 /\ UNCHANGED <<nodes, stamp>> /\ Same2
\* add_node_from_edges: the new node comes with its successor list, in order (targets are not validated by the code;
\* the driver passes existing nodes or the new node itself)
RECURSIVE ListRowFold(_, _, _, _)
ListRowFold(es, st, a, l) ==
    IF l = <<>> THEN <<es, st>>
    ELSE ListRowFold(es \cup {[a |-> a, b |-> Head(l)[1], w |-> Head(l)[2], k |-> st]}, st + 1, a, Tail(l))
ListAddNodeFrom(l) ==
    LET r == ListRowFold(E, stamp, N, l) IN
    /\ nodes' = [x \in Live \cup {N} |-> 0] /\ ret' = <<"i", N>> /\ E' = r[1] /\ stamp' = r[2] /\ Same2
\* DataMapMut::edge_weight_mut((a, rank)): the rank-th edge of a's row
ListSetEdgeWeight(a, rk, w) ==
    LET m == {e \in E : e.a = a /\ Rank(e) = rk} IN
    IF a \in Live /\ m # {} THEN LET f == CHOOSE e \in m : TRUE IN
         /\ ret' = <<"i", f.w>> /\ E' = (E \ {f}) \cup {[f EXCEPT !.w = w]} /\ UNCHANGED <<nodes, stamp>> /\ Same2
    ELSE ret' = <<"none">> /\ Unch
Clear == nodes' = Ident /\ E' = {} /\ ret' = <<"s", "ok">> /\ UNCHANGED stamp /\ Same2

--------------------------------------------------------------------------
\* ---- GraphMap
MapAddNode(n) == /\ nodes' = [x \in Live \cup {n} |-> x] /\ ret' = <<"i", n>> /\ UNCHANGED <<E, stamp>> /\ Same2
MapRemoveNode(n) ==
    /\ IF n \in Live THEN /\ ret' = <<"b", TRUE>> /\ nodes' = [x \in Live \ {n} |-> x]
                          /\ E' = {e \in E : e.a # n /\ e.b # n} /\ UNCHANGED stamp /\ Same2
       ELSE ret' = <<"b", FALSE>> /\ Unch
MapAddEdge(a, b, w) ==
    /\ nodes' = [x \in Live \cup {a, b} |-> x]
    /\ IF Has(a, b) THEN LET f == TheEdge(a, b) IN
                         /\ ret' = <<"i", f.w>> /\ E' = (E \ {f}) \cup {[f EXCEPT !.w = w]} /\ UNCHANGED stamp
       ELSE ret' = <<"none">> /\ AddE(a, b, w)
    /\ Same2
MapRemoveEdge(a, b) ==
    /\ IF Has(a, b) THEN ret' = <<"i", TheEdge(a, b).w>> /\ E' = E \ {TheEdge(a, b)} /\ UNCHANGED <<nodes, stamp>> /\ Same2
       ELSE ret' = <<"none">> /\ Unch
\* edge_weight_mut / IndexMut / all_edges_mut: store w, return the old weight (None / panic when absent)
SetEdgeWeight(a, b, w, absent) ==
    /\ IF Has(a, b) THEN LET f == TheEdge(a, b) IN
                         /\ ret' = <<"i", f.w>> /\ E' = (E \ {f}) \cup {[f EXCEPT !.w = w]} /\ UNCHANGED <<nodes, stamp>> /\ Same2
       ELSE ret' = absent /\ Unch
RECURSIVE ExtendFold(_, _, _, _)
ExtendFold(nd, es, st, l) ==
    IF l = <<>> THEN <<nd, es, st>>
    ELSE LET x == Head(l)
             old == {e \in es : (e.a = x[1] /\ e.b = x[2]) \/ (~dir /\ e.a = x[2] /\ e.b = x[1])}
             es2 == IF old = {} THEN es \cup {[a |-> x[1], b |-> x[2], w |-> x[3], k |-> st]}
                    ELSE (es \ old) \cup {[(CHOOSE e \in old : TRUE) EXCEPT !.w = x[3]]} IN
         ExtendFold(nd \cup {x[1], x[2]}, es2, st + 1, Tail(l))
MapExtend(l) == LET r == ExtendFold(Live, E, stamp, l) IN
                /\ nodes' = [x \in r[1] |-> x] /\ E' = r[2] /\ stamp' = r[3] /\ ret' = <<"s", "ok">> /\ Same2

\* GraphMap::from_graph / Deserialize for GraphMap (its wire format is a Graph): node weights become the keys (equal
\* weights collapse into one node), every edge is an add_edge in stream order (a repeated key pair keeps one edge, last
\* weight wins), whatever was in the map before is gone
MapLoad(ns, l) == LET r == ExtendFold({ns[i] : i \in DOMAIN ns}, {}, stamp, l) IN
                  /\ nodes' = [x \in r[1] |-> x] /\ E' = r[2] /\ stamp' = r[3] /\ ret' = <<"s", "ok">> /\ Same2

\* data::Build for GraphMap: add_edge refuses an existing pair (None) and otherwise inserts; update_edge is add_edge
MapBuildAddEdge(a, b, w) ==
    IF Has(a, b) THEN ret' = <<"b", FALSE>> /\ Unch
    ELSE /\ ret' = <<"b", TRUE>> /\ nodes' = [x \in Live \cup {a, b} |-> x] /\ AddE(a, b, w) /\ Same2
MapBuildUpdateEdge(a, b, w) ==
    /\ nodes' = [x \in Live \cup {a, b} |-> x] /\ ret' = <<"s", "ok">> /\ Same2
    /\ IF Has(a, b) THEN LET f == TheEdge(a, b) IN E' = (E \ {f}) \cup {[f EXCEPT !.w = w]} /\ UNCHANGED stamp
       ELSE AddE(a, b, w)
\* data::FromElements for GraphMap (distinct node weights): nodes, then Build::add_edge per edge element - the FIRST
\* element of a repeated pair wins
RECURSIVE ElemFold(_, _, _)
ElemFold(es, st, l) ==
    IF l = <<>> THEN <<es, st>>
    ELSE LET x == Head(l)
             old == {e \in es : (e.a = x[1] /\ e.b = x[2]) \/ (~dir /\ e.a = x[2] /\ e.b = x[1])} IN
         ElemFold(IF old = {} THEN es \cup {[a |-> x[1], b |-> x[2], w |-> x[3], k |-> st]} ELSE es, st + 1, Tail(l))
MapFromElements(ns, l) == LET r == ElemFold({}, stamp, l) IN
    /\ nodes' = [x \in {ns[i] : i \in DOMAIN ns} |-> x] /\ E' = r[1] /\ stamp' = r[2] /\ ret' = <<"s", "ok">> /\ Same2

--------------------------------------------------------------------------
\* ---- MatrixGraph
\* add_node returns some id that is not live (which one is not specified: the logged id is the parameter)
MxAddNode(w, id) == /\ id \notin Live /\ id >= 0
                    /\ nodes' = [x \in Live \cup {id} |-> IF x = id THEN w ELSE nodes[x]]
                    /\ ret' = <<"i", id>> /\ UNCHANGED <<E, stamp>> /\ Same2
MxRemoveNode(a) ==
    /\ IF a \in Live THEN /\ ret' = <<"i", nodes[a]>> /\ nodes' = [x \in Live \ {a} |-> nodes[x]]
                          /\ E' = {e \in E : e.a # a /\ e.b # a} /\ UNCHANGED stamp /\ Same2
       ELSE ret' = <<"panic">> /\ Unch
\* try_update_edge may also refuse with NodeMissed although both nodes exist (the matrix has not been
\* grown to their index yet; add_or_update_edge is the growing variant).  C04 does not say when a try_
\* call may fail, only that the graph stays faithful: a refusal must leave everything unchanged.
MxTryRefused == ret' = <<"err_s", "NodeMissed">> /\ Unch
MxUpdateEdge(a, b, w, tryv) ==      \* update_edge / try_update_edge
    /\ IF ~InB(a, b) THEN ret' = (IF tryv THEN <<"err_s", "NodeMissed">> ELSE <<"panic">>) /\ Unch
       ELSE IF Has(a, b) THEN LET f == TheEdge(a, b) IN
                 /\ ret' = (IF tryv THEN <<"ok_i", f.w>> ELSE <<"i", f.w>>)
                 /\ E' = (E \ {f}) \cup {[f EXCEPT !.w = w]} /\ UNCHANGED <<nodes, stamp>> /\ Same2
       ELSE /\ ret' = (IF tryv THEN <<"ok_none">> ELSE <<"none">>) /\ AddE(a, b, w) /\ UNCHANGED nodes /\ Same2
MxAddEdge(a, b, w) ==               \* panics if a node is missing or the edge exists
    /\ IF ~InB(a, b) \/ Has(a, b) THEN ret' = <<"panic">> /\ Unch
       ELSE ret' = <<"s", "ok">> /\ AddE(a, b, w) /\ UNCHANGED nodes /\ Same2
\* extend_with_edges between existing nodes of a hole-free graph, every listed pair absent: a sequence of add_edge
RECURSIVE MxExtendFold(_, _, _)
MxExtendFold(es, st, l) ==
    IF l = <<>> THEN <<es, st>>
    ELSE LET x == Head(l) IN MxExtendFold(es \cup {[a |-> x[1], b |-> x[2], w |-> x[3], k |-> st]}, st + 1, Tail(l))
MxExtend(l) == LET r == MxExtendFold(E, stamp, l) IN
               /\ \A i \in DOMAIN l : InB(l[i][1], l[i][2])
               /\ E' = r[1] /\ stamp' = r[2] /\ ret' = <<"s", "ok">> /\ UNCHANGED nodes /\ Same2
MxRemoveEdge(a, b, tryv) ==
    /\ IF InB(a, b) /\ Has(a, b) THEN ret' = <<"i", TheEdge(a, b).w>> /\ E' = E \ {TheEdge(a, b)} /\ UNCHANGED <<nodes, stamp>> /\ Same2
       ELSE ret' = (IF tryv THEN <<"none">> ELSE <<"panic">>) /\ Unch
MxSetNodeWeight(a, w) ==
    /\ IF a \in Live THEN ret' = <<"i", nodes[a]>> /\ nodes' = [nodes EXCEPT ![a] = w] /\ UNCHANGED <<E, stamp>> /\ Same2
       ELSE ret' = <<"none">> /\ Unch

NoEffect == ret' = <<"s", "ok">> /\ Unch

--------------------------------------------------------------------------
\* ---- observation
ETriple(e) == <<e.a, e.b, e.w>>
\* (source, target, weight) as reported when asked at node a in direction d (0 = Outgoing)
At(e, a, d) == IF dir THEN ETriple(e) ELSE IF d = 0 THEN <<a, Other(e, a), e.w>> ELSE <<Other(e, a), a, e.w>>
BagOf(f(_), S) == LET vals == {f(x) : x \in S} IN [v \in vals |-> Cardinality({x \in S : f(x) = v})]

PerOK(p) ==
    LET a == p.a IN
    IF a \notin Live THEN (\A fld \in DOMAIN p \ {"a"} : p[fld] = <<>>)
    ELSE
    /\ ("nbr" \in DOMAIN p =>           \* neighbors(a)
          IF kind = "csr" THEN p.nbr = Asc({Other(e, a) : e \in Out(a)}) /\ Len(p.nbr) = Cardinality(Out(a))
          ELSE IF kind = "list" THEN p.nbr = [i \in 1 .. Len(Row(a)) |-> Row(a)[i].b]
          ELSE LET f(e) == Other(e, a) IN SeqBag(p.nbr) = BagOf(f, Out(a)))
    /\ ("nbr_rev" \in DOMAIN p =>       \* List neighbors backwards: by next_back, by rfold (rev().fold) and rev().last()
          LET fw == [i \in 1 .. Len(Row(a)) |-> Row(a)[i].b]
              bw == [i \in 1 .. Len(fw) |-> fw[Len(fw) + 1 - i]] IN
          /\ p.nbr_rev[1] = bw /\ p.nbr_rev[2] = bw
          /\ p.nbr_rev[3] = (IF fw = <<>> THEN <<>> ELSE <<fw[1]>>))
    /\ ("nin" \in DOMAIN p => LET f(e) == Other(e, a) IN SeqBag(p.nin) = BagOf(f, In(a)))
    /\ ("eo" \in DOMAIN p =>            \* edges(a) / edges_directed(a, Outgoing)
          IF kind = "list" THEN p.eo = [i \in 1 .. Len(Row(a)) |-> ETriple(Row(a)[i])]
          ELSE LET f(e) == At(e, a, 0) IN SeqBag(p.eo) = BagOf(f, Out(a)))
    /\ ("eo2" \in DOMAIN p => LET f(e) == At(e, a, 0) IN SeqBag(p.eo2) = BagOf(f, Out(a)))       \* edges(a): a is the source
    /\ ("ei" \in DOMAIN p => LET f(e) == At(e, a, 1) IN SeqBag(p.ei) = BagOf(f, In(a)))
    /\ ("deg" \in DOMAIN p => p.deg = Cardinality(Out(a)))
    /\ ("nw" \in DOMAIN p => p.nw = nodes[a])
    /\ ("ews" \in DOMAIN p =>           \* Csr edges_slice: weights in neighbour order
          LET ts == Asc({Other(e, a) : e \in Out(a)}) IN
          p.ews = [i \in 1 .. Len(ts) |-> (CHOOSE e \in Out(a) : Other(e, a) = ts[i]).w])
PairOK(p) ==
    /\ ("ce" \in DOMAIN p => (p.ce = <<"b", InB(p.a, p.b) /\ Has(p.a, p.b)>>) \/ (~InB(p.a, p.b) /\ p.ce = <<"panic">> /\ kind \in {"csr", "matrix"}))
    /\ ("ew" \in DOMAIN p => p.ew = (IF InB(p.a, p.b) /\ Has(p.a, p.b) THEN <<"i", TheEdge(p.a, p.b).w>> ELSE <<"none">>))
    /\ ("fe" \in DOMAIN p =>            \* List::find_edge: first edge a -> b
          LET m == {e \in E : e.a = p.a /\ e.b = p.b} IN
          p.fe = (IF m = {} THEN <<"none">> ELSE <<"li", <<p.a, Rank(CHOOSE e \in m : \A g \in m : e.k <= g.k)>>>>))

ObsOK(o) ==
    /\ o.nc = N /\ o.ec = Cardinality(E) /\ o.directed = dir
    /\ SeqRange(o.nodes) = {<<x, nodes[x]>> : x \in Live} /\ NoDup(o.nodes)          \* node references, each once
    /\ (kind \in {"csr", "list"} => o.nodes = [i \in 1 .. N |-> <<i - 1, nodes[i - 1]>>])
    \* every edge once; an undirected edge may be reported from either endpoint
    /\ Len(o.edges) = Cardinality(E)
    /\ \A e \in E : \E i \in DOMAIN o.edges : o.edges[i] = ETriple(e) \/ (~dir /\ o.edges[i] = <<e.b, e.a, e.w>>)
    /\ \A i \in DOMAIN o.edges : \E e \in E : o.edges[i] = ETriple(e) \/ (~dir /\ o.edges[i] = <<e.b, e.a, e.w>>)
    /\ \A i \in DOMAIN o.per : PerOK(o.per[i])
    /\ \A i \in DOMAIN o.pairs : PairOK(o.pairs[i])
    /\ ("ix" \in DOMAIN o =>             \* to_index / from_index: inverse bijections onto 0..n-1
          /\ {o.ix[i][2] : i \in DOMAIN o.ix} = 0 .. (N - 1) /\ {o.ix[i][1] : i \in DOMAIN o.ix} = Live
          /\ Len(o.ix) = N /\ \A i \in DOMAIN o.ix : o.ix[i][3] = o.ix[i][1])
    /\ ("eix" \in DOMAIN o =>            \* EdgeIndexable: distinct indices below edge_bound, from_index inverse to to_index
          /\ Cardinality({o.eix[i][1] : i \in DOMAIN o.eix}) = Len(o.eix)
          /\ \A i \in DOMAIN o.eix : o.eix[i][1] < o.ebound /\ o.eix[i][2])
    /\ ("nidx_rfold" \in DOMAIN o => o.nidx_rfold = [i \in 1 .. N |-> N - i])      \* node_indices().rev() driven by fold
    /\ ("bound" \in DOMAIN o => \A x \in Live : x < o.bound)
    /\ ("erefs" \in DOMAIN o =>          \* List edge ids: <<from, rank, target, w>> row-major
          o.erefs = LET rows == [a \in 0 .. (N - 1) |-> [i \in 1 .. Len(Row(a)) |-> <<a, i - 1, Row(a)[i].b, Row(a)[i].w>>]] IN
                    FoldLeft(LAMBDA acc, a : acc \o rows[a], <<>>, Asc(0 .. (N - 1))))
============================================================================
