SPECIFICATION Spec
CONSTANTS MaxN = 3
  MaxOps = 9
  Cutoff = 2
  Directed = FALSE
  Mutant = "count_loops_twice"
CONSTRAINT Bounded
VIEW View
INVARIANT Inv
CHECK_DEADLOCK FALSE
