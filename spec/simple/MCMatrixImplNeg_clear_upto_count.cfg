SPECIFICATION Spec
CONSTANTS MaxId = 4
  MaxOps = 9
  Directed = TRUE
  Mutant = "clear_upto_count"
CONSTRAINT Bounded
VIEW View
INVARIANT Inv
CHECK_DEADLOCK FALSE
