SPECIFICATION TraceSpec
CONSTANT DbgAt = 0
INVARIANT TraceInv
POSTCONDITION TraceAccepted
CHECK_DEADLOCK FALSE
