SPECIFICATION Spec
CONSTANTS MaxOld = 6
  MaxReq = 9
  Mutant = "skip_last_col"
INVARIANTS TypeOK Laid NoLoss Progress CapOK
CHECK_DEADLOCK FALSE
