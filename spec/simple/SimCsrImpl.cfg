SPECIFICATION SimSpec
CONSTANTS MaxN = 40
  MaxOps = 260
  Cutoff = 32
  Directed = TRUE
  Mutant = "none"
INVARIANT Inv ExportAtEnd
CHECK_DEADLOCK FALSE
