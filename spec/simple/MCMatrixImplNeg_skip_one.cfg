SPECIFICATION Spec
CONSTANTS MaxId = 4
  MaxOps = 9
  Directed = TRUE
  Mutant = "skip_one"
CONSTRAINT Bounded
VIEW View
INVARIANT Inv
CHECK_DEADLOCK FALSE
