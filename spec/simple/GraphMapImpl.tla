---------------------------- MODULE GraphMapImpl ----------------------------
(* Implementation-shaped model of `GraphMap` (src/graphmap.rs):

     nodes   IndexMap<N, Vec<(N, CompactDirection)>>   - a sequence of <<key, adjacency vector>>; removal is swap_remove
     edges   IndexMap<(N, N), E>                        - a sequence of <<key pair, weight>>; removal is swap_remove

   add_edge inserts into `edges` first (an existing key keeps its slot and only the weight changes) and only for a new
   key pushes (b, Outgoing) on a's vector and - unless a = b - (a, Incoming) on b's vector, creating absent endpoints.
   remove_single_edge finds the entry by position (directed: the exact (node, direction) pair; undirected: the first
   entry naming the node) and swap_removes it.  remove_node swap_removes the node, then walks ITS vector, fixing the
   other endpoint's vector and the edge map one link at a time.  For undirected graphs the key pair is ordered.

   Checked: AdjOK (the adjacency vectors and the edge map describe the same edges, each exactly once per endpoint,
   never naming a missing node), NoDupKeys, the debug assertion of remove_edge (NoAssert), refinement of the abstract
   simple graph (node set, edge map) including every call's result.
   Iteration orders (nodes(), neighbors(), all_edges()) follow from the model too, but C03 does not promise them:
   the replay compares them and reports agreement only.                                                         *)
EXTENDS Integers, Sequences, FiniteSets, TLC, Json, SequencesExt

CONSTANTS Keys,       \* node values (small integers)
          MaxOps, Directed,
          Mutant      \* "none" | "loop_skip" | "no_opposite" | "und_key_unsorted"

VARIABLES nodes, edges, res, want, absN, absE, panic, hist
vars == <<nodes, edges, res, want, absN, absE, panic, hist>>
\* want: the result the abstract map prescribes for the last call (computed from the abstract pre-state)
\* absN: abstract node set; absE: abstract edge map as a set of <<a, b, w>> with the canonical key

OUT == 0
INC == 1
Opp(d) == 1 - d
EdgeKey(a, b) == IF Directed \/ Mutant = "und_key_unsorted" \/ a <= b THEN <<a, b>> ELSE <<b, a>>

SwapRemove(s, i) == IF i = Len(s) THEN SubSeq(s, 1, Len(s) - 1)
                    ELSE SubSeq(s, 1, i - 1) \o <<s[Len(s)]>> \o SubSeq(s, i + 1, Len(s) - 1)
IndexOfNode(ns, n) == IF \E i \in DOMAIN ns : ns[i][1] = n THEN CHOOSE i \in DOMAIN ns : ns[i][1] = n ELSE 0
IndexOfEdge(es, k) == IF \E i \in DOMAIN es : es[i][1] = k THEN CHOOSE i \in DOMAIN es : es[i][1] = k ELSE 0
FirstPos(v, P(_)) == IF \E i \in DOMAIN v : P(v[i]) THEN CHOOSE i \in DOMAIN v : P(v[i]) /\ \A j \in 1 .. (i - 1) : ~P(v[j]) ELSE 0

\* nodes.entry(a).or_insert_with(..).push(x)
PushAdj(ns, a, x) ==
    LET i == IndexOfNode(ns, a) IN
    IF i = 0 THEN Append(ns, <<a, <<x>>>>) ELSE [ns EXCEPT ![i] = <<a, Append(ns[i][2], x)>>]

\* remove_single_edge(a, b, dir): <<found, nodes'>>
RemoveSingle(ns, a, b, d) ==
    LET i == IndexOfNode(ns, a) IN
    IF i = 0 THEN <<FALSE, ns>>
    ELSE LET v == ns[i][2]
             p == IF Directed THEN FirstPos(v, LAMBDA e : e = <<b, d>>) ELSE FirstPos(v, LAMBDA e : e[1] = b) IN
         IF p = 0 THEN <<FALSE, ns>> ELSE <<TRUE, [ns EXCEPT ![i] = <<a, SwapRemove(v, p)>>]>>

RemoveEdgeKey(es, k) == LET i == IndexOfEdge(es, k) IN IF i = 0 THEN es ELSE SwapRemove(es, i)

\* the loop of remove_node over the removed node's own vector
RECURSIVE WalkLinks(_, _, _, _)
WalkLinks(ns, es, n, links) ==
    IF links = <<>> THEN <<ns, es>>
    ELSE LET succ == Head(links)[1]   d == Head(links)[2]
             key == IF d = OUT THEN EdgeKey(n, succ) ELSE EdgeKey(succ, n)
             skip == Mutant = "loop_skip" /\ succ = n
             ns2 == IF skip THEN ns ELSE RemoveSingle(ns, succ, n, IF Mutant = "no_opposite" THEN d ELSE Opp(d))[2]
             es2 == IF skip THEN es ELSE RemoveEdgeKey(es, key)
         IN WalkLinks(ns2, es2, n, Tail(links))

Log(o) == hist' = Append(hist, [o EXCEPT !.res = res'])

Init == nodes = <<>> /\ edges = <<>> /\ res = "ok" /\ want = "ok" /\ absN = {} /\ absE = {} /\ panic = FALSE /\ hist = <<>>

AddNode(n) ==
    /\ nodes' = IF IndexOfNode(nodes, n) = 0 THEN Append(nodes, <<n, <<>>>>) ELSE nodes
    /\ res' = "ok" /\ want' = "ok" /\ absN' = absN \cup {n} /\ UNCHANGED <<edges, absE, panic>>
    /\ Log([op |-> "add_node", a |-> n, b |-> 0, w |-> 0, res |-> ""])

AbsKey(a, b) == IF Directed \/ a <= b THEN <<a, b>> ELSE <<b, a>>
AbsOld(a, b) == {t \in absE : <<t[1], t[2]>> = AbsKey(a, b)}
OldW(a, b) == IF AbsOld(a, b) = {} THEN "none" ELSE ToString((CHOOSE t \in AbsOld(a, b) : TRUE)[3])
AddEdge(a, b, w) ==
    /\ LET k == EdgeKey(a, b)   i == IndexOfEdge(edges, k) IN
       IF i # 0
       THEN /\ edges' = [edges EXCEPT ![i] = <<k, w>>] /\ res' = ToString(edges[i][2]) /\ UNCHANGED nodes
       ELSE /\ edges' = Append(edges, <<k, w>>) /\ res' = "none"
            /\ nodes' = LET n1 == PushAdj(nodes, a, <<b, OUT>>) IN IF a # b THEN PushAdj(n1, b, <<a, INC>>) ELSE n1
    /\ absN' = absN \cup {a, b} /\ want' = OldW(a, b)
    /\ absE' = (absE \ AbsOld(a, b)) \cup {<<AbsKey(a, b)[1], AbsKey(a, b)[2], w>>}
    /\ UNCHANGED panic
    /\ Log([op |-> "add_edge", a |-> a, b |-> b, w |-> w, res |-> ""])

RemoveEdge(a, b) ==
    /\ LET r1 == RemoveSingle(nodes, a, b, OUT)
           r2 == IF a # b THEN RemoveSingle(r1[2], b, a, INC) ELSE <<r1[1], r1[2]>>
           k == EdgeKey(a, b)   i == IndexOfEdge(edges, k) IN
       /\ nodes' = r2[2] /\ edges' = RemoveEdgeKey(edges, k)
       /\ res' = IF i = 0 THEN "none" ELSE ToString(edges[i][2])
       /\ panic' = (panic \/ ~(r1[1] = r2[1] /\ r1[1] = (i # 0)))         \* debug_assert!(exist1 == exist2 && exist1 == weight.is_some())
    /\ absE' = absE \ AbsOld(a, b) /\ UNCHANGED absN /\ want' = OldW(a, b)
    /\ Log([op |-> "remove_edge", a |-> a, b |-> b, w |-> 0, res |-> ""])

RemoveNode(n) ==
    /\ LET i == IndexOfNode(nodes, n) IN
       IF i = 0 THEN res' = "false" /\ UNCHANGED <<nodes, edges>>
       ELSE LET r == WalkLinks(SwapRemove(nodes, i), edges, n, nodes[i][2]) IN
            nodes' = r[1] /\ edges' = r[2] /\ res' = "true"
    /\ absN' = absN \ {n} /\ absE' = {t \in absE : t[1] # n /\ t[2] # n} /\ UNCHANGED panic
    /\ want' = (IF n \in absN THEN "true" ELSE "false")
    /\ Log([op |-> "remove_node", a |-> n, b |-> 0, w |-> 0, res |-> ""])

Next == \/ \E n \in Keys : AddNode(n) \/ RemoveNode(n)
        \/ \E a, b \in Keys : RemoveEdge(a, b) \/ (\E w \in {Len(hist) + 1} : AddEdge(a, b, w))
Spec == Init /\ [][Next]_vars
Bounded == Len(hist) <= MaxOps
\* weights are unique serials: identify states up to them
View == <<[i \in DOMAIN nodes |-> nodes[i]], [i \in DOMAIN edges |-> edges[i][1]], panic,
          IF res \in {"ok", "none", "true", "false"} THEN res ELSE "some">>

\* ---------------- properties
NodeKeys == {nodes[i][1] : i \in DOMAIN nodes}
EdgeKeys == {edges[i][1] : i \in DOMAIN edges}
Adj(n) == nodes[IndexOfNode(nodes, n)][2]
Count(v, P(_)) == Cardinality({i \in DOMAIN v : P(v[i])})
NoDupKeys == /\ Cardinality(NodeKeys) = Len(nodes) /\ Cardinality(EdgeKeys) = Len(edges)
AdjOK ==
    /\ \A k \in EdgeKeys : k[1] \in NodeKeys /\ k[2] \in NodeKeys
    /\ \A n \in NodeKeys : \A i \in DOMAIN Adj(n) : Adj(n)[i][1] \in NodeKeys
    /\ IF Directed
       THEN /\ \A k \in EdgeKeys : /\ Count(Adj(k[1]), LAMBDA e : e = <<k[2], OUT>>) = 1
                                   /\ (k[1] # k[2] => Count(Adj(k[2]), LAMBDA e : e = <<k[1], INC>>) = 1)
            /\ \A n \in NodeKeys : \A i \in DOMAIN Adj(n) :
                   LET e == Adj(n)[i] IN IF e[2] = OUT THEN <<n, e[1]>> \in EdgeKeys ELSE (<<e[1], n>> \in EdgeKeys /\ e[1] # n)
       ELSE /\ \A k \in EdgeKeys : /\ Count(Adj(k[1]), LAMBDA e : e[1] = k[2]) = 1
                                   /\ Count(Adj(k[2]), LAMBDA e : e[1] = k[1]) = 1
            /\ \A n \in NodeKeys : \A i \in DOMAIN Adj(n) : AbsKey(n, Adj(n)[i][1]) \in EdgeKeys
Refines == /\ NodeKeys = absN
           /\ {<<edges[i][1][1], edges[i][1][2], edges[i][2]>> : i \in DOMAIN edges} = absE
NoAssert == ~panic

Verdict == res = want          \* every call returns what the abstract map prescribes
Inv == NoDupKeys /\ Refines /\ AdjOK /\ NoAssert /\ Verdict

Export == PrintT(<<"GMAP", ToJson([hist |-> hist, directed |-> Directed,
                                   nodes |-> [i \in DOMAIN nodes |-> nodes[i][1]],
                                   adj |-> [i \in DOMAIN nodes |-> nodes[i][2]],
                                   edges |-> [i \in DOMAIN edges |-> <<edges[i][1][1], edges[i][1][2], edges[i][2]>>]])>>)
=============================================================================
