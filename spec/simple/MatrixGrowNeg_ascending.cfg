SPECIFICATION Spec
CONSTANTS MaxOld = 6
  MaxReq = 9
  Mutant = "ascending"
INVARIANTS TypeOK Laid NoLoss Progress CapOK
CHECK_DEADLOCK FALSE
