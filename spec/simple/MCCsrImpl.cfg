SPECIFICATION Spec
CONSTANTS MaxN = 3
  MaxOps = 9
  Cutoff = 2
  Directed = TRUE
  Mutant = "none"
CONSTRAINT Bounded
VIEW View
INVARIANT Inv
PROPERTY Verdict
CHECK_DEADLOCK FALSE
