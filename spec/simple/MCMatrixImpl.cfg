SPECIFICATION Spec
CONSTANTS MaxId = 3
  MaxOps = 8
  Directed = TRUE
  Mutant = "none"
CONSTRAINT Bounded
VIEW View
INVARIANT Inv
CHECK_DEADLOCK FALSE
