SPECIFICATION Spec
CONSTANTS Keys = {0, 1, 2}
  MaxOps = 5
  Directed = FALSE
  Mutant = "und_key_unsorted"
CONSTRAINT Bounded
VIEW View
INVARIANT Inv
CHECK_DEADLOCK FALSE
