---------------------------- MODULE MatrixGrow ----------------------------
(* Implementation-shaped model of MatrixGraph's adjacency-matrix growth
   (src/matrix_graph.rs: extend_linearized_matrix / extend_flat_square_matrix /
   extend_lower_triangular_matrix, and the position functions).

   A directed MatrixGraph keeps a flat row-major square matrix of width
   `cap`; growing it re-lays the rows out IN PLACE, last row first, swapping
   each row into its new position -- block-wise when old and new positions do
   not overlap, element-wise from the last column down when they do.  An
   undirected MatrixGraph keeps a lower-triangular matrix whose positions do
   not depend on the capacity, so growing only appends.

   One TLC step = one row move (or one element swap in the overlapping case):
   the loop structure of the code is kept so that a wrong bound, direction or
   overlap test shows up as a violated invariant.  Cells hold either Def
   (T::default(), "no edge") or the identity <<r, c>> of the matrix entry they
   were created for, so "every entry is where the new width says it is and
   every other cell is default" is checkable literally.                      *)
EXTENDS Integers, Sequences, FiniteSets, TLC, Json

CONSTANTS MaxOld,      \* old capacities 0..MaxOld
          MaxReq,      \* requested capacities up to MaxReq
          Mutant       \* "none" | "skip_last_col" | "ascending" | "rows_from_2" (negative controls)

VARIABLES arr,     \* the Vec: function 0..len-1 -> Def or <<r,c>>
          old,     \* old_node_capacity
          new,     \* new_node_capacity (after rounding)
          directed,
          c,       \* current row of the outer loop (directed only)
          i,       \* current column of the inner element-wise loop, or -1 (encoded as old) when not in it
          pc,      \* "row" | "elem" | "done"
          call     \* the call being modelled: [old, req, exact, directed] (constant along a behaviour)

vars == <<arr, old, new, directed, c, i, pc, call>>

NextPow2(n) == CHOOSE p \in {1, 2, 4, 8, 16, 32} : p >= n /\ \A q \in {1, 2, 4, 8, 16, 32} : q >= n => p <= q
Max(a, b) == IF a >= b THEN a ELSE b

\* capacity actually allocated for a request (exact: with_capacity; otherwise exponential steps, min 4)
Rounded(req, exact, dir) ==
    IF ~dir THEN req
    ELSE IF exact THEN req
    ELSE Max(NextPow2(req), 4)

SqPos(r, k, w) == r * w + k
TriPos(r, k) == LET hi == Max(r, k) lo == IF r >= k THEN k ELSE r IN (hi * (hi + 1)) \div 2 + lo

\* a fully populated old matrix: entry (r,k) holds <<r,k>>  (a complete graph with self-loops is the worst case:
\* a sparser matrix is the same run with some identities replaced by default, which the moves treat identically)
OldSquare(o) == [p \in 0..(o * o - 1) |-> <<p \div o, p % o>>]
OldTri(o) == [p \in 0..((o * (o + 1)) \div 2 - 1) |->
                 CHOOSE rc \in (0..o - 1) \X (0..o - 1) : rc[1] >= rc[2] /\ TriPos(rc[1], rc[2]) = p]

\* ensure_len: append defaults
Def == <<-1, -1>>    \* T::default()
Ensure(a, len) == [p \in 0..(Max(len, Cardinality(DOMAIN a)) - 1) |-> IF p \in DOMAIN a THEN a[p] ELSE Def]

Swap(a, p, q) == [a EXCEPT ![p] = a[q], ![q] = a[p]]

\* swap_nonoverlapping(old, new, count)
RECURSIVE SwapBlock(_, _, _, _)
SwapBlock(a, p, q, n) == IF n = 0 THEN a ELSE SwapBlock(Swap(a, p + n - 1, q + n - 1), p, q, n - 1)

Init ==
    \E o \in 0..MaxOld, req \in 1..MaxReq, exact \in BOOLEAN, dir \in BOOLEAN :
        /\ o < req                      \* extend_linearized_matrix returns early otherwise
        /\ old = o
        /\ directed = dir
        /\ new = Rounded(req, exact, dir)
        /\ IF dir
             THEN /\ arr = Ensure(OldSquare(o), new * new)
                  /\ c = o - 1          \* (1..old).rev() starts at old-1; empty when old <= 1
                  /\ pc = IF o >= 2 THEN "row" ELSE "done"
             ELSE /\ arr = Ensure(OldTri(o), TriPos(new - 1, new - 1) + 1)
                  /\ c = 0
                  /\ pc = "done"
        /\ i = 0
        /\ call = [old |-> o, req |-> req, exact |-> exact, directed |-> dir]

FirstRow == IF Mutant = "rows_from_2" THEN 2 ELSE 1

AfterRow == IF c - 1 >= FirstRow THEN c' = c - 1 /\ pc' = "row" ELSE c' = c /\ pc' = "done"

Row ==
    /\ pc = "row"
    /\ LET pos == c * old  npos == c * new IN
       IF pos + old <= npos
         THEN /\ arr' = SwapBlock(arr, pos, npos, old)
              /\ AfterRow /\ i' = i
         ELSE /\ pc' = "elem"
              /\ i' = IF Mutant = "ascending" THEN 0 ELSE IF Mutant = "skip_last_col" THEN old - 2 ELSE old - 1
              /\ UNCHANGED <<arr, c>>
    /\ UNCHANGED <<old, new, directed, call>>

Elem ==
    /\ pc = "elem"
    /\ LET pos == c * old  npos == c * new IN
       /\ arr' = Swap(arr, pos + i, npos + i)
       /\ IF Mutant = "ascending"
            THEN IF i + 1 <= old - 1 THEN i' = i + 1 /\ UNCHANGED <<c, pc>> ELSE i' = i /\ AfterRow
            ELSE IF i - 1 >= 0
                   THEN i' = i - 1 /\ UNCHANGED <<c, pc>> ELSE i' = i /\ AfterRow
    /\ UNCHANGED <<old, new, directed, call>>

Done == pc = "done" /\ UNCHANGED vars

Next == Row \/ Elem \/ Done
Spec == Init /\ [][Next]_vars

--------------------------------------------------------------------------
TypeOK ==
    /\ pc \in {"row", "elem", "done"}
    /\ DOMAIN arr = 0..(Cardinality(DOMAIN arr) - 1)
    /\ c \in -1..MaxOld /\ i \in 0..MaxOld

\* the property C04 relies on: after growth every old entry is found through the new position function and
\* nothing else is set -- so no edge appears, disappears or moves between node pairs when the graph grows
Laid ==
    pc = "done" =>
      IF directed
        THEN /\ Cardinality(DOMAIN arr) >= new * new
             /\ \A p \in DOMAIN arr :
                  arr[p] = IF p < new * new /\ (p \div new) < old /\ (p % new) < old THEN <<p \div new, p % new>> ELSE Def
        ELSE /\ Cardinality(DOMAIN arr) >= TriPos(new - 1, new - 1) + 1
             /\ \A r \in 0..new - 1, k \in 0..new - 1 :
                  arr[TriPos(r, k)] = IF r < old /\ k < old THEN (IF r >= k THEN <<r, k>> ELSE <<k, r>>) ELSE Def

\* nothing is ever lost or duplicated in flight: the multiset of non-default cells is constant (they are all distinct)
NoLoss ==
    LET live == {p \in DOMAIN arr : arr[p] # Def} IN
    /\ Cardinality(live) = (IF directed THEN old * old ELSE (old * (old + 1)) \div 2)
    /\ \A p, q \in live : arr[p] = arr[q] => p = q

\* the rows not yet processed are still where the OLD width puts them, the processed ones where the NEW width does
Progress ==
    (directed /\ pc = "row") =>
       /\ \A r \in 0..c, k \in 0..old - 1 : arr[SqPos(r, k, old)] = <<r, k>>
       /\ \A r \in (c + 1)..(old - 1), k \in 0..old - 1 : arr[SqPos(r, k, new)] = <<r, k>>

\* growth never shrinks and the non-exact path allocates at least 4 and a power of two
CapOK == new > old

Terminates == <>(pc = "done")
FairSpec == Spec /\ WF_vars(Row \/ Elem)

\* spec -> implementation: every completed behaviour is printed as one call of the real routine with the
\* expected final Vec; the harness (mx-grow) runs the call through the cfg(petgraph_verif) hook and compares
Export ==
    pc = "done" =>
      PrintT(<<"GROW", ToJson([call |-> call, new |-> new,
                               arr |-> [p \in 1..Cardinality(DOMAIN arr) |-> arr[p - 1]]])>>)
==========================================================================
