------------------------------ MODULE CsrImpl ------------------------------
(* Implementation-shaped model of `Csr` (src/csr.rs): the compressed sparse row arrays as coded.

     row     n+1 offsets into column (row[a] .. row[a+1] is the slice of node a)
     column  target of every stored entry, each row strictly ascending
     ew      the edge weight stored next to each column entry
     ecount  the cached edge count that only the undirected flavour maintains

   add_edge_ finds the insertion point with `find_edge_pos` - a linear scan for rows shorter than the
   cutoff, a binary search otherwise - inserts into column / ew and bumps every later row offset; the
   undirected flavour stores a non-loop edge in both rows.  The cutoff is a constant of the model so that
   a small exhaustive model crosses it (Cutoff = 2) and a simulation can run with the real value 32.

   Checked: RowsOK (offsets monotone and closed, rows strictly ascending, targets in range), Symmetric
   (undirected: b in row a iff a in row b, same weight), CountOK (edge_count), and refinement of the
   abstract simple graph: the set of stored pairs is the abstract edge map, add_edge returns false exactly
   on an existing edge and then changes nothing, out-of-range endpoints are refused without change
   (from_sorted_edges is covered by the abstract trace spec SGTrace only).
   Binding: every exported behaviour is replayed on the real Csr; `neighbors_slice` / `edges_slice` /
   `edge_count` expose exactly these arrays through the public API and are compared cell by cell.   *)
EXTENDS Integers, Sequences, FiniteSets, TLC, Json, SequencesExt

CONSTANTS MaxN,       \* at most MaxN nodes
          MaxOps,     \* bound on history length
          Cutoff,     \* BINARY_SEARCH_CUTOFF
          Directed,   \* TRUE / FALSE
          Mutant      \* "none" | "no_offset" | "bump_from_a" | "und_one_row" | "count_loops_twice"

VARIABLES row, column, ew, ecount, res, abs, hist
\* abs: the abstract edge map (set of <<a, b, w>>, directed pairs as stored), maintained independently
vars == <<row, column, ew, ecount, res, abs, hist>>

NodeCount == Len(row) - 1
VecInsert(s, i, x) == SubSeq(s, 1, i - 1) \o <<x>> \o SubSeq(s, i, Len(s))      \* Vec::insert at 1-based i

\* ---------------- find_edge_pos: <<found, pos>> with pos a 0-based index into column
RowStart(a) == row[a + 1]
RowEnd(a) == row[a + 2]
Nbrs(a) == SubSeq(column, RowStart(a) + 1, RowEnd(a))
RECURSIVE Linear(_, _, _)
Linear(nb, b, i) ==          \* i: 0-based position in the slice
    IF i >= Len(nb) THEN <<FALSE, Len(nb)>>
    ELSE IF nb[i + 1] = b THEN <<TRUE, i>>
    ELSE IF nb[i + 1] > b THEN <<FALSE, i>>
    ELSE Linear(nb, b, i + 1)
\* slice::binary_search: any match, or the insertion point that keeps the order
RECURSIVE BinSearch(_, _, _, _)
BinSearch(nb, b, lo, hi) ==  \* searches nb[lo+1 .. hi], 0-based half-open [lo, hi)
    IF lo >= hi THEN <<FALSE, lo>>
    ELSE LET mid == lo + ((hi - lo) \div 2) IN
         IF nb[mid + 1] = b THEN <<TRUE, mid>>
         ELSE IF nb[mid + 1] < b THEN BinSearch(nb, b, mid + 1, hi)
         ELSE BinSearch(nb, b, lo, mid)
FindEdgePos(a, b) ==
    LET nb == Nbrs(a)
        r == IF Len(nb) < Cutoff THEN Linear(nb, b, 0) ELSE BinSearch(nb, b, 0, Len(nb))
        off == IF Mutant = "no_offset" /\ Len(nb) >= Cutoff THEN 0 ELSE RowStart(a)
    IN <<r[1], r[2] + off>>

\* ---------------- add_edge_ on explicit arrays (used twice by the undirected try_add_edge)
AddEdgeArr(rw, col, wt, a, b, w, pos) ==
    [row |-> [i \in DOMAIN rw |-> IF i > a + 1 - (IF Mutant = "bump_from_a" THEN 1 ELSE 0) THEN rw[i] + 1 ELSE rw[i]],
     column |-> VecInsert(col, pos + 1, b),
     ew |-> VecInsert(wt, pos + 1, w)]

Log(o) == hist' = Append(hist, [o EXCEPT !.res = res'])      \* must follow the conjunct that defines res'

Init == /\ row = <<0>> /\ column = <<>> /\ ew = <<>> /\ ecount = 0 /\ res = "ok" /\ abs = {} /\ hist = <<>>

AddNode ==
    /\ NodeCount < MaxN
    /\ row' = VecInsert(row, Len(row), Len(column))        \* row.insert(len - 1, column.len())
    /\ res' = "ok" /\ UNCHANGED <<column, ew, ecount, abs>>
    /\ Log([op |-> "add_node", a |-> 0, b |-> 0, w |-> 0, res |-> ""])

TryAddEdge(a, b, w) ==
    /\ IF ~(a < NodeCount /\ b < NodeCount)
       THEN res' = "err" /\ UNCHANGED <<row, column, ew, ecount, abs>>
       ELSE LET f == FindEdgePos(a, b) IN
            IF f[1] THEN res' = "false" /\ UNCHANGED <<row, column, ew, ecount, abs>>
            ELSE LET s1 == AddEdgeArr(row, column, ew, a, b, w, f[2]) IN
                 IF Directed \/ a = b \/ Mutant = "und_one_row"
                 THEN /\ row' = s1.row /\ column' = s1.column /\ ew' = s1.ew
                      /\ ecount' = IF Directed THEN ecount ELSE ecount + (IF Mutant = "count_loops_twice" /\ a = b THEN 2 ELSE 1)
                      /\ res' = "true" /\ abs' = abs \cup {<<a, b, w>>}
                 ELSE \* the mirror entry is searched for in the arrays that already hold the first one
                      LET nb2 == SubSeq(s1.column, s1.row[b + 1] + 1, s1.row[b + 2])
                          r2 == IF Len(nb2) < Cutoff THEN Linear(nb2, a, 0) ELSE BinSearch(nb2, a, 0, Len(nb2))
                          s2 == AddEdgeArr(s1.row, s1.column, s1.ew, b, a, w, r2[2] + s1.row[b + 1]) IN
                      /\ row' = s2.row /\ column' = s2.column /\ ew' = s2.ew /\ ecount' = ecount + 1
                      /\ res' = IF r2[1] THEN "assert" ELSE "true"            \* debug_assert_eq!(ret, _ret2)
                      /\ abs' = abs \cup {<<a, b, w>>, <<b, a, w>>}
    /\ Log([op |-> "try_add_edge", a |-> a, b |-> b, w |-> w, res |-> ""])

ClearEdges ==
    /\ column' = <<>> /\ ew' = <<>> /\ row' = [i \in DOMAIN row |-> 0]
    /\ ecount' = 0 /\ res' = "ok" /\ abs' = {}
    /\ Log([op |-> "clear_edges", a |-> 0, b |-> 0, w |-> 0, res |-> ""])

Next == \/ AddNode \/ ClearEdges
        \/ \E a, b \in 0 .. MaxN : \E w \in {Len(hist) + 1} : TryAddEdge(a, b, w)      \* weights: unique serials
Spec == Init /\ [][Next]_vars
Bounded == Len(hist) <= MaxOps

\* simulation with the real cutoff: all nodes exist from the start and the calls concentrate on two hub nodes, so
\* that their rows (and, undirected, the mirrored entries) grow through the cutoff
Hubs == {0, MaxN \div 2}
InitFull == /\ row = [i \in 1 .. (MaxN + 1) |-> 0] /\ column = <<>> /\ ew = <<>> /\ ecount = 0 /\ res = "ok" /\ abs = {} /\ hist = <<>>
SimNext == \E h \in Hubs, x \in 0 .. (MaxN - 1), k \in 1 .. 4 : \E w \in {Len(hist) + 1} : LET fw == k < 4 IN
               IF fw THEN TryAddEdge(h, x, w) ELSE TryAddEdge(x, h, w)
SimSpec == InitFull /\ [][SimNext]_vars
\* weights do not influence the structure: identify states up to them
View == <<row, column, ecount, res>>

\* ---------------- properties
RowsOK ==
    /\ row[1] = 0 /\ row[Len(row)] = Len(column) /\ Len(ew) = Len(column)
    /\ \A i \in 1 .. (Len(row) - 1) : row[i] <= row[i + 1]
    /\ \A a \in 0 .. (NodeCount - 1) : LET nb == Nbrs(a) IN
          /\ \A i \in 1 .. (Len(nb) - 1) : nb[i] < nb[i + 1]
          /\ \A i \in DOMAIN nb : nb[i] \in 0 .. (NodeCount - 1)
Stored == UNION {{<<a, column[p], ew[p]>> : p \in (RowStart(a) + 1) .. RowEnd(a)} : a \in 0 .. (NodeCount - 1)}
Refines == Stored = abs
Symmetric == Directed \/ \A t \in abs : <<t[2], t[1], t[3]>> \in abs
CountOK == Directed \/ ecount = Cardinality({t \in abs : t[1] <= t[2]})
NoAssert == res # "assert"
Inv == RowsOK /\ Refines /\ Symmetric /\ CountOK /\ NoAssert

\* add_edge answers false exactly for an existing pair, err exactly for an out-of-range endpoint
Verdict ==
    [][\A a, b \in 0 .. MaxN : \A w \in 1 .. (MaxOps + 1) : TryAddEdge(a, b, w) =>
          res' = (IF ~(a < NodeCount /\ b < NodeCount) THEN "err"
                  ELSE IF \E t \in abs : t[1] = a /\ t[2] = b THEN "false" ELSE "true")]_vars

Export == PrintT(<<"CSR", ToJson([hist |-> hist, n0 |-> Len(row) - 1 - Cardinality({i \in DOMAIN hist : hist[i].op = "add_node"}), directed |-> Directed, row |-> row, column |-> column, ew |-> ew,
                                  ec |-> IF Directed THEN Len(column) ELSE ecount])>>)
ExportAtEnd == (Len(hist) = MaxOps) => Export
=============================================================================
