SPECIFICATION Spec
CONSTANTS MaxId = 4
  MaxOps = 9
  Directed = TRUE
  Mutant = "no_incoming_clear"
CONSTRAINT Bounded
VIEW View
INVARIANT Inv
CHECK_DEADLOCK FALSE
