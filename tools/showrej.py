#!/usr/bin/env python3
import json, sys
def compact(e):
    e = dict(e)
    for k in ("per", "pairs", "eq"):
        if k in e: e[k] = "<%d>" % len(e[k])
    return json.dumps(e, separators=(",", ":"))
for p in sys.argv[1:]:
    L = [json.loads(l) for l in open(p)]
    n = int(sys.argv[0] and 8)
    print("==", p, "len", len(L) - 1)
    print(compact(L[1])[:300])
    for e in L[-7:]:
        print("  ", compact(e)[:700])
