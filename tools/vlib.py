"""Shared machinery for the petgraph TLA+ checks: harness build, TLC runner,
trace validation (chunked, parallel), oracle runs, evidence, known findings."""
import json, os, re, subprocess, sys, time, shutil, hashlib
from concurrent.futures import ThreadPoolExecutor

VERIF = os.path.dirname(os.path.dirname(os.path.abspath(__file__)))
OUT = os.path.join(VERIF, "out")
SPEC = os.path.join(VERIF, "spec")
HARNESS = os.path.join(VERIF, "harness")
TLC_JAR = "/opt/veriftools/tla/tla2tools.jar"


class ToolError(Exception):
    pass


def log(*a):
    print(*a, flush=True)


def sh(cmd, **kw):
    return subprocess.run(cmd, shell=isinstance(cmd, str), stdout=subprocess.PIPE, stderr=subprocess.STDOUT, text=True, **kw)


# ----------------------------------------------------------------- harness
_built = {}


def build_harness(release=False):
    """(Re)build the harness against /repo's current working tree."""
    key = "release" if release else "debug"
    if key in _built:
        return _built[key]
    lock = os.path.join(HARNESS, "Cargo.lock")
    if not os.path.exists(lock):
        shutil.copy("/repo/Cargo.lock", lock)
    cmd = ["cargo", "build", "--offline", "--quiet"] + (["--release"] if release else [])
    env = dict(os.environ, CARGO_NET_OFFLINE="true")
    t = time.time()
    r = subprocess.run(cmd, cwd=HARNESS, env=env, stdout=subprocess.PIPE, stderr=subprocess.STDOUT, text=True)
    if r.returncode != 0:
        log(r.stdout[-4000:])
        raise ToolError("harness build failed (%s)" % key)
    path = os.path.join(OUT, "target", key, "vh")
    _built[key] = path
    log("[build] harness %s ok in %.1fs" % (key, time.time() - t))
    return path


def _limits():
    import resource
    resource.setrlimit(resource.RLIMIT_AS, (8 << 30, 8 << 30))      # an endless allocation loop aborts
    resource.setrlimit(resource.RLIMIT_CORE, (0, 0))


def vh(args, release=False, timeout=1800, check=True):
    exe = build_harness(release)
    try:
        r = subprocess.run([exe] + [str(a) for a in args], stdout=subprocess.PIPE, stderr=subprocess.PIPE, text=True, timeout=timeout, preexec_fn=_limits)
    except subprocess.TimeoutExpired as e:
        if check:
            raise ToolError("harness %s timed out after %ss" % (args[:2], timeout))
        r = subprocess.CompletedProcess(e.cmd, -99, "", "timeout")
    if check and r.returncode != 0:
        raise ToolError("harness %s failed rc=%s: %s" % (args[:2], r.returncode, r.stderr[-2000:]))
    return r


def vh_trace(args, out_path, release=False, timeout=120):
    """Run a trace-producing driver. If the code under test kills or hangs the harness process
    (abort, out of memory, endless loop), keep the trace written so far and append a `crashed`
    event naming the call that was running: no spec action explains it, so it is a rejection."""
    r = vh(list(args) + ["--out", out_path], release=release, timeout=timeout, check=False)
    evs = []
    if os.path.exists(out_path):
        with open(out_path) as f:
            for l in f:
                try:
                    evs.append(json.loads(l))
                except Exception:
                    break     # torn last line
        os.remove(out_path)
    cur = out_path + ".cur"
    during = None
    if os.path.exists(cur):
        try:
            during = json.load(open(cur))
        except Exception:
            during = None
        os.remove(cur)
    if r.returncode != 0:
        if not evs:
            raise ToolError("harness %s failed rc=%s before logging anything: %s" % (args[:2], r.returncode, r.stderr[-1500:]))
        log("[harness] %s died rc=%s during %s" % (args[0], r.returncode, json.dumps(during)[:200]))
        evs.append({"op": "crashed", "rc": r.returncode if r.returncode > -99 else "timeout", "during": during or {"op": "unknown"}})
    return evs


def vh_records(args, out_path, release=False, timeout=900):
    """Run a record-producing subcommand.  Returns (records, died): died is None, or {"rc", "during"} when the code under
    test killed the harness (abort, stack overflow, out of memory) or never returned; `during` is the sidecar written
    before the input that was being processed.  The caller turns that into a violation - it is not a tool error."""
    r = vh(list(args) + ["--out", out_path], release=release, timeout=timeout, check=False)
    recs = []
    if os.path.exists(out_path):
        with open(out_path) as f:
            for l in f:
                try:
                    recs.append(json.loads(l))
                except Exception:
                    break
        os.remove(out_path)
    cur = out_path + ".cur"
    during = None
    if os.path.exists(cur):
        try:
            during = json.load(open(cur))
        except Exception:
            during = None
        os.remove(cur)
    died = None
    if r.returncode != 0:
        if during is None and not recs:
            raise ToolError("harness %s failed rc=%s before processing any input: %s" % (args[:1], r.returncode, (r.stderr or "")[-1500:]))
        died = {"rc": r.returncode if r.returncode > -99 else "timeout", "during": during or {}}
        log("[harness] %s died rc=%s while processing %s" % (args[0], died["rc"], json.dumps(during)[:200]))
    return recs, died


# ----------------------------------------------------------------- TLC
_run_id = [0]


def _metadir(tag):
    _run_id[0] += 1
    d = os.path.join(OUT, "tlc", "%s-%d-%d" % (tag, os.getpid(), _run_id[0]))
    os.makedirs(d, exist_ok=True)
    return d


class TlcResult:
    def __init__(self, out, rc, wall):
        self.out = out
        self.rc = rc
        self.wall = wall
        m = re.search(r"(\d+) states generated, (\d+) distinct states found", out)
        self.generated = int(m.group(1)) if m else 0
        self.distinct = int(m.group(2)) if m else 0
        m = re.search(r"depth of the complete state graph search is (\d+)", out)
        self.depth = int(m.group(1)) if m else 0
        self.errors = [l for l in out.splitlines() if l.startswith("Error:")]
        self.ok = (rc == 0 and "No error has been found" in out) or (rc == 0 and not self.errors and "Finished in" in out)

    def printed(self, tag):
        """Tuples printed with PrintT(<<tag, ...>>): returns the raw lines."""
        pre = '<<"%s"' % tag
        return [l for l in self.out.splitlines() if l.startswith(pre)]

    def tool_failure(self):
        """Errors that are not property verdicts (parse errors, evaluation errors, timeouts)."""
        if self.rc == 124:
            return "timeout"
        bad = [e for e in self.errors if not re.search(r"Invariant .* is violated|Postcondition .* is false|Action property .* is violated|Temporal properties were violated|Deadlock", e)]
        # TLC prints a follow-up 'Error: The behavior up to this point is' line for real violations
        bad = [e for e in bad if "The behavior up to this point" not in e and "The following behavior constitutes" not in e]
        if bad:
            return "; ".join(bad[:3])
        if not self.errors and not self.ok:
            return "tlc rc=%s without verdict" % self.rc
        return None


def tlc(module_path, cfg, workers=8, timeout=900, env=None, extra=None, tag="mc", heap="8g", deque=False, coverage=False):
    """Run TLC on spec/<module_path>.tla with config cfg (relative to the module dir)."""
    d = os.path.dirname(os.path.join(SPEC, module_path))
    mod = os.path.basename(module_path) + ".tla"
    meta = _metadir(tag)
    jopts = "-Xss1g -Xmx%s" % heap
    if deque:
        jopts += " -Dtlc2.tool.queue.IStateQueue=StateDeque"
    e = dict(os.environ)
    e["JAVA_TOOL_OPTIONS"] = jopts
    if env:
        e.update(env)
    cmd = ["timeout", str(timeout), "tlc", "-workers", str(workers), "-metadir", meta, "-cleanup", "-noGenerateSpecTE", "-config", cfg]
    if coverage:
        cmd += ["-coverage", "1"]
    if extra:
        cmd += extra
    cmd.append(mod)
    t = time.time()
    r = subprocess.run(cmd, cwd=d, env=e, stdout=subprocess.PIPE, stderr=subprocess.STDOUT, text=True)
    shutil.rmtree(meta, ignore_errors=True)
    return TlcResult(r.stdout, r.returncode, time.time() - t)


def unquote_tlc_string(s):
    """TLC prints strings with \\" and \\\\ escapes."""
    return bytes(s, "utf-8").decode("unicode_escape") if "\\" in s else s


def parse_printed_json(line, tag):
    """<<"TAG", "json...">>  ->  python object (first string field after the tag)."""
    m = re.match(r'<<"%s", (?:(\d+), )?"(.*)">>$' % tag, line)
    if not m:
        return None
    txt = m.group(2).replace('\\"', '"').replace("\\\\", "\\")
    return (int(m.group(1)) if m.group(1) else None, json.loads(txt))


# ----------------------------------------------------------------- traces
def read_ndjson(path):
    with open(path) as f:
        return [json.loads(l) for l in f if l.strip()]


def write_ndjson(path, evs):
    os.makedirs(os.path.dirname(path), exist_ok=True)
    with open(path, "w") as f:
        for e in evs:
            f.write(json.dumps(e, separators=(",", ":")) + "\n")


def split_segments(events, key="op", reset="reset"):
    segs, cur = [], []
    for e in events:
        if e.get(key) == reset and cur:
            segs.append(cur)
            cur = []
        cur.append(e)
    if cur:
        segs.append(cur)
    return segs


class Rejection:
    def __init__(self, segment, index, event, spec):
        self.segment = segment  # list of events of the segment
        self.index = index      # 0-based index in the segment of the rejected event
        self.event = event
        self.spec = spec

    def script(self):
        return self.segment[: self.index + 1]


def parse_coverage(out):
    """-coverage 1 output: '<TrAddNode line 18, col 1 to line 18, col 9 of module M>: 68:68' -> {name: distinct}"""
    cov = {}
    for m in re.finditer(r"^<(\w+) line \d+, col \d+ to line \d+, col \d+ of module \w+>: (\d+):(\d+)", out, re.M):
        cov[m.group(1)] = cov.get(m.group(1), 0) + int(m.group(2))
    return cov


MAX_REJECTIONS_PER_CHUNK = 6


def _validate_chunk(module_path, cfg, segs, tag, timeout, consts_env=None, coverage=False):
    """Validate a list of segments with one TLC run after another until all are
    explained or rejected.  Returns (accepted_count, [Rejection], states, wall, toolerr)."""
    accepted, rejs, states, wall = 0, [], 0, 0.0
    todo = list(segs)
    n = 0
    _validate_chunk.unexamined = getattr(_validate_chunk, "unexamined", 0)
    while todo:
        if len(rejs) >= MAX_REJECTIONS_PER_CHUNK:
            # every rejection costs one more TLC run over the rest of the chunk; a change that breaks most histories
            # would otherwise take hours.  The verdict is already "violated"; the rest is counted as unexamined.
            _validate_chunk.unexamined += len(todo)
            break
        n += 1
        path = os.path.join(OUT, "traces", "%s-%d-%d.ndjson" % (tag, os.getpid(), n))
        flat = [e for s in todo for e in s]
        write_ndjson(path, flat)
        env = {"TRACE": path}
        if consts_env:
            env.update(consts_env)
        r = tlc(module_path, cfg, workers=1, timeout=timeout, env=env, tag=tag, heap="3g", deque=True, coverage=coverage and n == 1)
        if coverage and n == 1:
            _validate_chunk.cov = parse_coverage(r.out)
        wall += r.wall
        states += r.distinct
        os.remove(path)
        tf = r.tool_failure()
        if tf:
            return accepted, rejs, states, wall, "%s: %s\n%s" % (module_path, tf, r.out[-1500:])
        rej = r.printed("REJECTED")
        if r.ok and not rej:
            accepted += len(todo)
            break
        if not rej:
            return accepted, rejs, states, wall, "%s: no verdict\n%s" % (module_path, r.out[-1500:])
        m = re.match(r'<<"REJECTED", (\d+),', rej[0])
        line = int(m.group(1))  # 1-based line of first unexplained event
        # locate segment
        k = 0
        pos = line - 1
        while pos >= len(todo[k]):
            pos -= len(todo[k])
            k += 1
        accepted += k
        rejs.append(Rejection(todo[k], pos, todo[k][pos], module_path))
        todo = todo[k + 1:]
    return accepted, rejs, states, wall, None


def validate_trace(module_path, cfg, events, tag, parallel=8, chunk_events=6000, timeout=600, consts_env=None):
    """Split a recorded trace into chunks of whole segments and validate them in parallel.
    Returns dict(accepted, rejections, states, segments)."""
    segs = split_segments(events)
    chunks, cur, cnt = [], [], 0
    for s in segs:
        cur.append(s)
        cnt += len(s)
        if cnt >= chunk_events:
            chunks.append(cur)
            cur, cnt = [], 0
    if cur:
        chunks.append(cur)
    res = {"accepted": 0, "rejections": [], "states": 0, "segments": len(segs), "events": len(events), "tlc_wall": 0.0}
    _validate_chunk.cov = {}
    _validate_chunk.unexamined = 0
    with ThreadPoolExecutor(max_workers=parallel) as ex:
        # the first chunk is also run with -coverage 1: per-action counts show which spec actions the
        # recorded history exercised (an action that is never taken was never checked)
        futs = [ex.submit(_validate_chunk, module_path, cfg, c, "%s%d" % (tag, i), timeout, consts_env, i == 0) for i, c in enumerate(chunks)]
        for f in futs:
            a, rj, st, w, err = f.result()
            if err:
                raise ToolError(err)
            res["accepted"] += a
            res["rejections"] += rj
            res["states"] += st
            res["tlc_wall"] += w
    res["action_coverage"] = dict(_validate_chunk.cov)
    res["unexamined"] = _validate_chunk.unexamined
    if res["unexamined"]:
        log("[trace] %d segments left unexamined after %d rejections per chunk" % (res["unexamined"], MAX_REJECTIONS_PER_CHUNK))
    return res


# ----------------------------------------------------------------- oracle runs (R3)
def run_oracle(module_path, records, tag, workers=12, timeout=1800, chunk=4000, parallel=3):
    """Judge recorded (input, output) pairs with a TLA+ oracle: every record is one TLC initial
    state, the Next action evaluates Bad(record).  Returns dict(judged, rejects=[(record, badset)])."""
    res = {"judged": 0, "rejects": [], "states": 0, "transitions": 0, "tlc_wall": 0.0}
    chunks = [records[k:k + chunk] for k in range(0, len(records), chunk)]

    def one(k, recs):
        path = os.path.join(OUT, "traces", "%s-%d-%d.ndjson" % (tag, os.getpid(), k))
        write_ndjson(path, recs)
        r = tlc(module_path, "Oracle.cfg", workers=max(2, workers // parallel), timeout=timeout, env={"RECORDS": path}, tag=tag, heap="6g")
        os.remove(path)
        return r

    with ThreadPoolExecutor(max_workers=parallel) as ex:
        futs = [(recs, ex.submit(one, k, recs)) for k, recs in enumerate(chunks)]
        for recs, f in futs:
            r = f.result()
            tf = r.tool_failure()
            if tf or not r.ok:
                raise ToolError("oracle %s: %s\n%s" % (module_path, tf, r.out[-2500:]))
            if r.distinct != 2 * len(recs):
                raise ToolError("oracle %s judged %d states for %d records\n%s" % (module_path, r.distinct, len(recs), r.out[-1500:]))
            res["judged"] += len(recs)
            res["states"] += r.distinct
            res["transitions"] += r.generated
            res["tlc_wall"] += r.wall
            for line in r.printed("REJECT"):
                m = re.match(r'<<"REJECT", (\d+), \{(.*)\}>>', line)
                idx = int(m.group(1)) - 1
                bad = sorted(x.strip().strip('"') for x in m.group(2).split(","))
                res["rejects"].append((recs[idx], bad))
    return res


# ----------------------------------------------------------------- findings
def load_known():
    p = os.path.join(VERIF, "KNOWN_FINDINGS.json")
    if not os.path.exists(p):
        return []
    return json.load(open(p)).get("findings", [])


def _match(pattern, sig):
    for k, v in pattern.items():
        s = sig.get(k)
        if isinstance(v, dict) and "re" in v:
            if s is None or not re.search(v["re"], json.dumps(s) if not isinstance(s, str) else s):
                return False
        elif s != v:
            return False
    return True


def known_finding_for(prop, sig):
    for f in load_known():
        if f.get("status") == "open" and prop in f.get("properties", [f.get("property")]) and _match(f["match"], sig):
            return f
    return None


# ----------------------------------------------------------------- result / evidence
class Run:
    """Accumulates what one check run covered and its verdicts."""

    def __init__(self, prop, tier, seed):
        self.prop, self.tier, self.seed = prop, tier, seed
        self.t0 = time.time()
        self.states = 0
        self.transitions = 0
        self.traces = 0
        self.samples = []
        self.violations = []   # (sig, replay_path)
        self.known = []
        self.extra = {}
        self.assumptions = []
        self.mc_runs = []
        # replay files of earlier runs of this property are stale
        import glob
        for f in glob.glob(os.path.join(OUT, "replay", "%s-*.ndjson" % prop)):
            os.remove(f)

    def add_mc(self, name, r, expect_ok=True):
        tf = r.tool_failure()
        if tf:
            log(r.out[-3000:])
            raise ToolError("TLC %s: %s" % (name, tf))
        self.states += r.distinct
        self.transitions += r.generated
        self.mc_runs.append({"name": name, "distinct": r.distinct, "generated": r.generated, "depth": r.depth, "wall_s": round(r.wall, 1), "ok": r.ok})
        log("[tlc] %-28s distinct=%d generated=%d depth=%d %.1fs %s" % (name, r.distinct, r.generated, r.depth, r.wall, "ok" if r.ok else "VIOLATED"))
        if expect_ok and not r.ok:
            # the specification itself violates its invariants: a spec-level violation
            log(r.out[-3000:])
            self.violation({"kind": "spec", "model": name, "error": r.errors[:2]}, [{"model": name, "tlc_tail": r.out[-3000:]}])
        return r

    def add_validation(self, name, res):
        cov = res.get("action_coverage") or {}
        if cov:
            acc = self.extra.setdefault("action_coverage_first_chunk", {})
            for k, v in cov.items():
                if k.startswith("Tr"):
                    acc[k] = acc.get(k, 0) + v
            self.extra["uncovered_actions"] = sorted(k for k, v in acc.items() if v == 0)
        self.states += res["states"]
        self.transitions += res["events"]
        self.traces += res["accepted"]
        log("[trace] %-26s segments=%d accepted=%d rejected=%d events=%d tlc=%.1fs" % (name, res["segments"], res["accepted"], len(res["rejections"]), res["events"], res["tlc_wall"]))

    def violation(self, sig, replay_events, header=None):
        kf = known_finding_for(self.prop, sig)
        if kf:
            if kf["id"] not in [k["id"] for k in self.known]:
                self.known.append(kf)
                log("KNOWN-FINDING: property=%s %s" % (self.prop, kf["what"]))
            return
        n = len(self.violations) + 1
        path = os.path.join(OUT, "replay", "%s-%d.ndjson" % (self.prop, n))
        hdr = {"replay": dict(header or {}, property=self.prop, signature=sig)}
        write_ndjson(path, [hdr] + list(replay_events))
        self.violations.append((sig, path))
        if n <= 20:
            log("VIOLATION property=%s replay=%s" % (self.prop, path))
            log("  signature: %s" % json.dumps(sig)[:600])

    def sample(self, s):
        if len(self.samples) < 4:
            self.samples.append(s)

    def finish(self, level="model_checking", rule=None, exhaustive=None):
        ev = {
            "property_id": self.prop,
            "tier": self.tier,
            "seed": self.seed,
            "level": level,
            "coverage": dict({
                "states": self.states,
                "transitions": self.transitions,
                "traces_validated_against_impl": self.traces,
                "samples": self.samples or ["(none)"],
                "tlc_runs": self.mc_runs,
            }, **self.extra),
            "assumptions": self.assumptions,
            "wall_s": round(time.time() - self.t0, 1),
            "violations": len(self.violations),
        }
        if rule:
            ev["coverage"]["rule"] = rule
        if exhaustive is not None:
            ev["coverage"]["exhaustive"] = exhaustive
        ev["coverage"]["known_findings_reported"] = [k["id"] for k in self.known]
        os.makedirs(os.path.join(VERIF, "evidence"), exist_ok=True)
        with open(os.path.join(VERIF, "evidence", "%s.json" % self.prop), "w") as f:
            json.dump(ev, f, indent=1)
        log("[done] %s tier=%s states=%d transitions=%d traces=%d violations=%d known=%d wall=%.0fs" % (
            self.prop, self.tier, self.states, self.transitions, self.traces, len(self.violations), len(self.known), time.time() - self.t0))
        return 1 if self.violations else 0


def report_rejections(run, res, exec_cmd, spec, sig_fn=None):
    """Turn trace rejections into VIOLATION / KNOWN-FINDING lines."""
    for rj in res["rejections"]:
        ev = rj.event
        sig = {"kind": "trace", "spec": spec, "op": ev.get("op"), "ret": ev.get("ret", ["?"])[0] if isinstance(ev.get("ret"), list) and ev.get("ret") else str(ev.get("ret")),
               "cfg": {k: v for k, v in rj.segment[0].items() if k not in ("ret", "len", "st")}}
        if sig_fn:
            sig.update(sig_fn(rj))
        run.violation(sig, rj.script(), header={"exec": exec_cmd, "spec": spec, "rejected_index": rj.index})
