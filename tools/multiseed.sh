#!/bin/bash
# No-alarm campaign: every quick check with several seeds on the unchanged tree. Prints one line per run.
cd "$(dirname "$0")/.."
./setup.sh >/dev/null 2>&1
for seed in ${SEEDS:-2 3 4}; do
  for p in C01 C02 C03 C04 C05 C06 C07 C08 C09 C10 C11 C12 C13 C14 C15 C16 C17 C18 C19 C20; do
    t0=$(date +%s)
    VERIF_SEED=$seed ./check $p --tier ${TIER:-quick} --seed $seed > out/ms-$p-$seed.log 2>&1; rc=$?
    echo "$p seed=$seed rc=$rc $(( $(date +%s) - t0 ))s $(grep -c '^VIOLATION' out/ms-$p-$seed.log) violations"
    if [ $rc -ne 0 ]; then grep -E "VIOLATION|signature|TOOL-ERROR" out/ms-$p-$seed.log | head -6; fi
  done
done
