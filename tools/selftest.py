#!/usr/bin/env python3
"""Binding demonstration / vacuity guard (DESIGN 1.2): for every trace spec a real recorded trace is
(a) accepted, (b) rejected at the right line after ONE recorded field is corrupted, (c) rejected after ONE
mutating event is deleted; for every oracle a corrupted output field is rejected.  Writes
selftest/selftest.json and exits 1 if any expectation fails."""
import json, os, sys, copy, random
sys.path.insert(0, os.path.dirname(os.path.abspath(__file__)))
from vlib import *

random.seed(7)
results = []

def expect(name, cond, detail=""):
    results.append({"test": name, "ok": bool(cond), "detail": detail})
    log("[%s] %s %s" % ("ok" if cond else "FAIL", name, detail))

def trace_case(name, args, spec, cfg, mut_ops, corrupt):
    tp = os.path.join(OUT, "traces", "selftest-%s.ndjson" % name)
    evs = vh_trace(args, tp)
    res = validate_trace(spec, cfg, evs, "st" + name, parallel=4)
    expect(name + ": recorded trace accepted", not res["rejections"], "segments=%d" % res["segments"])
    # (b) corrupt one field of one event in a single segment
    segs = split_segments(evs)
    seg = max(segs, key=len)
    # only events that visibly changed the state (counts differ from the previous event, or a merging union)
    def changed(i):
        a, b = seg[i - 1], seg[i]
        return any(a.get(f) != b.get(f) for f in ("nc", "ec", "len") if f in a and f in b) or b.get("ret") in (["b", True], ["ok_b", True])
    idx = [i for i, e in enumerate(seg) if e.get("op") in mut_ops and i > 2 and changed(i)]
    k = idx[len(idx) // 2]
    bad = copy.deepcopy(seg); corrupt(bad[k])
    r = validate_trace(spec, cfg, bad, "stb" + name, parallel=1)
    ok = len(r["rejections"]) == 1 and r["rejections"][0].index == k
    expect(name + ": corrupted field rejected at its line", ok, "event %d op %s -> %s" % (k, seg[k].get("op"), [x.index for x in r["rejections"]]))
    # (c) delete one mutating event
    bad = seg[:k] + seg[k + 1:]
    r = validate_trace(spec, cfg, bad, "stc" + name, parallel=1)
    ok = len(r["rejections"]) == 1 and r["rejections"][0].index >= k
    expect(name + ": deleted event makes the rest unexplainable", ok, "deleted %d -> rejected at %s" % (k, [x.index for x in r["rejections"]]))

def bump_count(e):
    # where the returned index is legitimately unspecified (StableGraph / MatrixGraph add_*), corrupt the
    # logged count instead
    e["nc"] = e["nc"] + 1

def bump_ret(e):
    r = e["ret"]
    if r[0] in ("i", "ok_i"): r[1] += 1
    elif r[0] in ("b", "ok_b"): r[1] = not r[1]
    else: e["ret"] = ["i", 12345]

build_harness()
trace_case("uf", ["uf-random", "--seed", 3, "--segments", 12, "--len", 60], "uf/UnionFindTrace", "UnionFindTrace.cfg",
           ("union", "try_union", "find", "find_mut"), bump_ret)
trace_case("graph", ["mg-random", "--seed", 3, "--segments", 14, "--len", 60], "graph/MGTrace", "MGTrace.cfg",
           ("add_edge", "add_node", "remove_edge"), bump_ret)
trace_case("stable", ["mg-random", "--seed", 4, "--segments", 14, "--len", 60, "--stable"], "graph/MGTrace", "MGTrace.cfg",
           ("add_edge", "add_node", "remove_edge"), bump_count)
trace_case("acyclic", ["mg-acyclic", "--seed", 4, "--segments", 12, "--len", 50], "graph/MGTrace", "MGTrace.cfg",
           ("ac_try_add_edge", "ac_add_node"), bump_ret)
trace_case("map", ["sg-random", "--prop", "C03", "--seed", 3, "--segments", 6, "--len", 60], "simple/SGTrace", "SGTrace.cfg",
           ("add_edge", "remove_edge", "remove_node"), bump_ret)
trace_case("matrix", ["sg-random", "--prop", "C04", "--seed", 3, "--segments", 6, "--len", 60], "simple/SGTrace", "SGTrace.cfg",
           ("update_edge", "add_node"), bump_count)
trace_case("csr_list", ["sg-random", "--prop", "C05", "--seed", 3, "--segments", 6, "--len", 60], "simple/SGTrace", "SGTrace.cfg",
           ("add_edge", "try_add_edge", "add_node"), bump_ret)

# obs corruption: swap two neighbours in a directed adjacency list (order is part of C01)
tp = os.path.join(OUT, "traces", "selftest-obs.ndjson")
evs = vh_trace(["mg-random", "--seed", 5, "--segments", 8, "--len", 80], tp)
done = False
for seg in split_segments(evs):
    if not seg[0].get("directed"): continue
    for i, e in enumerate(seg):
        if e.get("op") == "obs" and e.get("directed"):
            for p in e["per"]:
                if len(p["no"]) >= 2 and p["no"][0] != p["no"][1]:
                    bad = copy.deepcopy(seg); q = [x for x in bad[i]["per"] if x["a"] == p["a"]][0]
                    q["no"][0], q["no"][1] = q["no"][1], q["no"][0]
                    r = validate_trace("graph/MGTrace", "MGTrace.cfg", bad, "sto", parallel=1)
                    expect("graph: swapped neighbour order in an observation is rejected", len(r["rejections"]) == 1 and r["rejections"][0].index == i, "obs at %d" % i)
                    done = True; break
        if done: break
    if done: break
expect("graph: found an observation to corrupt", done)

# oracles: corrupt one output field per property
def oracle_case(prop, module, field, corrupt, sweep_args=None):
    tp = os.path.join(OUT, "traces", "selftest-%s.ndjson" % prop)
    vh(sweep_args or ["algo-sweep", "--prop", prop, "--seed", 5, "--exh", 2, "--random", 12, "--nmax", 5, "--out", tp])
    recs = read_ndjson(tp); os.remove(tp)
    cands = [r for r in recs if field in r and r[field][0] == "ok" and len(r.get("E", [])) >= 3]
    r0 = copy.deepcopy(cands[len(cands) // 2]); corrupt(r0[field][1])
    res = run_oracle(module, [cands[0], r0], "st" + prop.lower(), workers=2, parallel=1)
    ok = len(res["rejects"]) == 1 and field in res["rejects"][0][1]
    expect("%s oracle: corrupted %s rejected, untouched record accepted" % (prop, field), ok, str([b for _, b in res["rejects"]]))

def flip_first_bool(v):
    if isinstance(v, list) and v and isinstance(v[0], list): v[0][0] = not v[0][0] if isinstance(v[0][0], bool) else v[0][0]
oracle_case("C09", "algo/OracleC09", "hp", flip_first_bool)
oracle_case("C10", "algo/OracleC10", "dj", lambda v: v[0].__setitem__(0, 5))
oracle_case("C11", "algo/OracleC11", "spfa", lambda v: v.__setitem__(0, ["negcycle"] if v[0][0] == "paths" else ["paths", [0], [-1]]))
oracle_case("C12", "algo/OracleC12", "mst", lambda v: v["edges"].pop() if v["edges"] else v["nodes"].pop())
oracle_case("C16", "algo/OracleC16", "dom", lambda v: v[0]["idom"].__setitem__(len(v[0]["idom"]) - 1, 0 if v[0]["idom"][-1] != 0 else -1))
oracle_case("C20", "algo/OracleC20", "pr", lambda v: v.__setitem__("sum", 5))
oracle_case("C08", "algo/OracleC08", "dfs", lambda v: v[0]["seq"].append(v[0]["seq"][0]))
oracle_case("C06", "algo/OracleC06", "nbr", lambda v: v[0].append(0))
oracle_case("C15", "algo/OracleC15", "greedy", lambda v: v.__setitem__("len", v["len"] + 1))

# negative configurations of the implementation-shaped models: re-introducing a defect must break an invariant
for mod, cfg, what in [("graph/StableImpl", "MCStableImplNeg.cfg", "reverse() swapping the links of vacant slots (shipped before 672bf88)"),
                       ("graph/GraphImpl", "MCGraphImplNeg.cfg", "remove_edge not relinking the edge moved by swap_remove")]:
    r = tlc(mod, cfg, workers=6, timeout=600)
    expect("%s negative config violates Inv: %s" % (mod.split("/")[1], what), any("Invariant Inv is violated" in e for e in r.errors), str(r.errors[:1]))

for mut, what in [("skip_last_col", "element-wise row move starting one column short"), ("ascending", "overlapping row moved first column first"),
                  ("rows_from_2", "outer loop skipping row 1")]:
    r = tlc("simple/MatrixGrow", "MatrixGrowNeg_%s.cfg" % mut, workers=2, timeout=300)
    expect("MatrixGrow mutant %s violates Laid: %s" % (mut, what), any("Invariant Laid is violated" in e for e in r.errors), str(r.errors[:1]))

for mut, what in [("fut_first", "reorder placing the future cone of b before the past cone of a (what the code comment says)"),
                  ("no_rename", "DiGraph removal not renaming the moved node in the order map (shipped before 6c40ef3)")]:
    r = tlc("graph/AcyclicPK", "MCAcyclicPKNeg_%s.cfg" % mut, workers=4, timeout=300)
    expect("AcyclicPK mutant %s violates Inv: %s" % (mut, what), any("Invariant Inv is violated" in e for e in r.errors), str(r.errors[:1]))

for mut, what in [("no_offset", "binary-search branch of find_edge_pos forgetting the row offset"), ("bump_from_a", "row offsets bumped from the row itself instead of the next one"),
                  ("und_one_row", "undirected edge stored in one row only"), ("count_loops_twice", "undirected self-loop counted twice")]:
    r = tlc("simple/CsrImpl", "MCCsrImplNeg_%s.cfg" % mut, workers=4, timeout=300)
    expect("CsrImpl mutant %s violates Inv: %s" % (mut, what), any("Invariant Inv is violated" in e for e in r.errors), str(r.errors[:1]))

for mut, what in [("loop_skip", "remove_node skipping the self-loop link (and its edge-map entry)"), ("no_opposite", "remove_node looking for the link with the same direction tag in the other endpoint's vector"),
                  ("und_key_unsorted", "undirected edge key not ordered")]:
    r = tlc("simple/GraphMapImpl", "MCGraphMapImplNeg_%s.cfg" % mut, workers=4, timeout=300)
    expect("GraphMapImpl mutant %s violates Inv: %s" % (mut, what), any("Invariant Inv is violated" in e for e in r.errors), str(r.errors[:1]))

for mut, what in [("skip_one", "IdIterator skipping only one removed id"), ("clear_upto_count", "remove_node clearing cells for ids 0..node_count instead of the live ids"),
                  ("no_incoming_clear", "remove_node not clearing the incoming cells of a directed matrix"), ("clear_live_block", "clear() resetting only the cells of the first node_count ids")]:
    r = tlc("simple/MatrixImpl", "MCMatrixImplNeg_%s.cfg" % mut, workers=4, timeout=300)
    expect("MatrixImpl mutant %s violates Inv: %s" % (mut, what), any("Invariant Inv is violated" in e for e in r.errors), str(r.errors[:1]))

r = tlc("algo/DomCHK", "MCDomCHKNeg_sibling_shortcut.cfg", workers=6, timeout=300)
expect("DomCHK mutant sibling_shortcut violates Inv: intersect returning the common parent also for equal fingers", any("Invariant Inv is violated" in e for e in r.errors), str(r.errors[:1]))

r = tlc("algo/DomCHK", "MCDomCHKNeg_last_changed.cfg", workers=8, timeout=600)
expect("DomCHK mutant last_changed violates Inv (N=5, <= 7 edges): the fixpoint flag reflecting only the last node of a sweep", any("Invariant Inv is violated" in e for e in r.errors), str(r.errors[:1]))

r = tlc("algo/TarjanPearce", "MCTarjanPearceNeg_entry_index.cfg", workers=6, timeout=300)
expect("TarjanPearce mutant entry_index violates Inv: lowlink compared with the index a node got on entry", any("Invariant Inv is violated" in e for e in r.errors), str(r.errors[:1]))

r = tlc("algo/NegCycle", "MCNegCycleNeg_no_record.cfg", workers=8, timeout=600)
expect("NegCycle mutant no_record violates VerdictOK: find_negative_cycle as shipped before 0a08617 (the relaxable edge not recorded)", any("Invariant VerdictOK is violated" in e for e in r.errors), str(r.errors[:1]))

for mut, what in [("mixed_union", "union(a_order, b_index): a position mixed with a raw index"), ("raw_positions", "emitted edges carrying raw indices instead of positions")]:
    r = tlc("algo/KruskalIx", "MCKruskalIxNeg_%s.cfg" % mut, workers=4, timeout=300)
    expect("KruskalIx mutant %s violates Final: %s" % (mut, what), any("Invariant Final is violated" in e for e in r.errors), str(r.errors[:1]))

bad = [r for r in results if not r["ok"]]
os.makedirs(os.path.join(VERIF, "evidence"), exist_ok=True)
json.dump({"tests": results, "failed": len(bad)}, open(os.path.join(VERIF, "selftest", "selftest.json"), "w"), indent=1)
log("selftest: %d tests, %d failed" % (len(results), len(bad)))
sys.exit(1 if bad else 0)
