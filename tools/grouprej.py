#!/usr/bin/env python3
"""grouprej.py <records.ndjson> <tlc.log> : group oracle rejections by (field, enc, hist, tag) and show examples"""
import json,re,collections,sys
L=[json.loads(l) for l in open(sys.argv[1])]
c=collections.Counter(); ex={}
for l in open(sys.argv[2]):
    m=re.match(r'<<"REJECT", (\d+), \{(.*)\}>>',l)
    if m:
        r=L[int(m.group(1))-1]
        for f in m.group(2).split(','):
            f=f.strip().strip('"')
            k=(f,r['enc'],r['dir'],r[f][0])
            c[k]+=1
            if k not in ex or len(r['E'])<len(ex[k]['E']): ex[k]=r
for k,v in c.most_common(): print(v,k)
n=int(sys.argv[3]) if len(sys.argv)>3 else 6
for k,r in list(ex.items())[:n]:
    print(k, 'hist',r['hist'],'n',r['n'],'dir',r['dir'],'E',r['E'], json.dumps(r[k[0]])[:700])
