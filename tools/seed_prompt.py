#!/usr/bin/env python3
"""Prints the prompt given to an independent sub-agent that seeds property-breaking changes.
The agent sees only the property text and its own scratch worktree."""
import json, sys
pid = sys.argv[1]; n = int(sys.argv[2]) if len(sys.argv) > 2 else 2
p = [json.loads(l) for l in open('/verif/properties.jsonl') if json.loads(l)['id'] == pid][0]
wt = "/tmp/wt-%s" % pid
import os
base = os.environ.get("SEEDS", "/tmp/seeds")
avoid = os.environ.get("AVOID", "")
print(f"""You are given a scratch git worktree of the Rust crate `petgraph` at {wt} (a checkout of the crate's pinned commit). Work ONLY inside {wt} and {base}/{pid}/. Do NOT read, list or touch /verif or /repo (another team's independent work lives there and your output must be independent of it).

A semantic property that users of petgraph rely on:

  {p['id']}: {p['title']}
  STATEMENT: {p['statement']}
  QUANTIFIER: {p['quantifier']['text']}
  (Code anchors: {', '.join(p['anchors']['files'])})

YOUR TASK: produce {n} independent source changes to petgraph (under {wt}/src only), each as its own patch against the worktree's HEAD, such that each change
  (a) still compiles (`cargo build --offline`),
  (b) passes the ENTIRE existing test suite unchanged:  cd {wt} && cargo test --workspace --offline --no-fail-fast   (all tests must pass; report the totals),
  (c) BREAKS the property above, and
  (d) needs something specific to manifest: a multi-step sequence of operations, an unusual or boundary input, a particular internal state (vacant indices, reused ids, a capacity boundary, a tie, a particular iteration order), or two cooperating sites that each look fine alone. It must NOT be something ordinary use would expose at once (otherwise the existing tests would catch it anyway).
Make them realistic: the kind of slip a maintainer could make during a refactor or an optimisation (off-by-one, wrong variable, dropped update, wrong direction, stale cached count, missing case, reordered statements) - not a contrived `if x == 12345` back door. The {n} changes should touch different mechanisms/functions.{(' Earlier rounds already produced changes in: ' + avoid + ' - choose OTHER functions, files or mechanisms this time (the property covers more code than that).') if avoid else ''}

For each change k = 1..{n} deliver in {base}/{pid}/<k>/ :
  patch.diff  - `git diff` of the src change only (must apply with `git apply` to a clean checkout of HEAD),
  demo.rs     - a self-contained integration test file (to be dropped into {wt}/tests/ as seed_demo.rs and run with `cargo test --offline --test seed_demo`; add `--features serde-1` style requirements in notes if needed) that FAILS with the change applied and PASSES on the clean checkout. It is a demonstration, not part of the patch.
  notes.md    - which clause of the property it breaks, what is needed for it to manifest, the exact commands you ran and their observed results (test totals with the patch; demo result with and without the patch).

You must actually run and confirm all of this: clean tree -> demo passes; patched tree -> full suite passes AND demo fails. If a candidate change is caught by the existing suite, discard it and find another. Before finishing, restore the worktree to a clean state (`git -C {wt} checkout -- . && git -C {wt} clean -fdq -e target`), keeping only the files under {base}/{pid}/. The machine is shared: use at most `-j 4` for cargo (e.g. `cargo test -j 4 ...`). No network is available (always pass --offline). Final answer: a short summary per change (file/function touched, how it manifests), nothing else.""")
