#!/bin/bash
# seedtest.sh <patch.diff> <prop> [tier] : apply a seeded change to /repo, run the check, undo. Prints rc.
PATCH=$1; P=$2; T=${3:-quick}
cd /verif
git -C /repo diff --quiet || { echo "repo dirty"; exit 2; }
git -C /repo apply "$PATCH" || { echo "apply failed"; exit 2; }
# the evidence file describes the unchanged tree: keep it out of the seeded run
[ -f evidence/$P.json ] && cp evidence/$P.json out/evidence-$P.keep
timeout 3600 ./check $P --tier $T > /verif/out/seedtest-$P.log 2>&1; RC=$?
[ -f out/evidence-$P.keep ] && mv out/evidence-$P.keep evidence/$P.json
git -C /repo checkout -- .
echo "rc=$RC"; grep -E "VIOLATION|KNOWN-FINDING|TOOL-ERROR|^\[done\]" /verif/out/seedtest-$P.log | head -8
