#!/bin/bash
# seedbatch.sh <seed-id>... : run seedtest for each seeded change against its own property's quick check, one at a time
cd /verif
for s in "$@"; do
  p=${s%%-*}
  echo "== $s"
  bash tools/seedtest.sh /verif/seeded/$s/patch.diff $p | head -3
  grep -E "signature" out/seedtest-$p.log | head -2 | cut -c1-300
done
