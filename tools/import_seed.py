#!/usr/bin/env python3
"""import_seed.py <prop> <k>: copy a confirmed seed from $SEEDS (default /tmp/seeds) into /verif/seeded/<prop>-<$AS or k>/"""
import json, os, shutil, sys
p, k = sys.argv[1], sys.argv[2]
base = os.environ.get("SEEDS", "/tmp/seeds")
src = "%s/%s/%s" % (base, p, k)
k = os.environ.get("AS", k)
c = json.load(open(src + "/confirm.json"))
assert c["apply"] and c["demo_clean_rc"] == 0 and c["suite_rc"] == 0 and c["suite_failed"] == 0 and c["demo_patched_rc"] != 0, c
dst = "/verif/seeded/%s-%s" % (p, k)
os.makedirs(dst, exist_ok=True)
for f in ("patch.diff", "demo.rs", "notes.md"):
    shutil.copy(os.path.join(src, f), dst)
notes = open(src + "/notes.md").read()
meta = {
    "id": "%s-%s" % (p, k), "breaks_property": p,
    "needs_to_manifest": "see notes.md (written by the independent sub-agent that produced the change)",
    "confirmed_by_me": {
        "how": "tools/confirm_seed.sh in scratch worktree /tmp/wt-%s: demo on clean tree, patch applied, demo again, then cargo test --workspace --offline --no-fail-fast" % p,
        "demo_on_clean_tree_rc": c["demo_clean_rc"], "demo_on_patched_tree_rc": c["demo_patched_rc"],
        "suite_on_patched_tree": {"rc": c["suite_rc"], "passed": c["suite_passed"], "failed": c["suite_failed"]},
    },
    "detected_by": None,
}
mp = dst + "/meta.json"
if os.path.exists(mp):
    old = json.load(open(mp)); meta["detected_by"] = old.get("detected_by")
json.dump(meta, open(mp, "w"), indent=1)
print("imported", dst)
