#!/usr/bin/env python3
"""Regenerates MANIFEST.json from the table below (one entry per claimed property)."""
import json, os
V = os.path.dirname(os.path.dirname(os.path.abspath(__file__)))
ALL = ["C%02d" % i for i in range(1, 21)]

CLAIMED = {
 "C01": dict(
   text="GraphAbs.tla (compact-indexed multigraph, swap-renumbering, most-recent-first directed adjacency, error results leave the graph unchanged) is model-checked exhaustively by TLC for the tiny index type Ix3, and GraphImpl.tla (the linked adjacency lists, swap_remove re-pointing and list surgery as coded) is model-checked for its structural invariants and for refinement of GraphAbs, with a mutated configuration as negative control; every distinct state of a TLC state cover (GraphCover.tla) is reconstructed on the real Graph and every operation fanned out from it; the real Graph (Directed/Undirected x Ix3/Ix4/Ix7/u8/u16/u32/usize) is driven with seeded random histories, vacancy/limit scenarios and u8 histories that fill the 255-index space; every public call (inherent, via the data::Build trait, data::FromElements) is one trace event and TLC validates every trace against GraphAbs (MGTrace.tla); obs events carry the result of every query (counts, weights, endpoints, find/contains, neighbors/edges in each direction, edges_connecting, externals, whole-graph iterators forwards and backwards, detached walkers) and are compared with the TLA+ definitions.",
   note="Trusted: TLC + Json module, harness recorder (public API only). Exhaustive only for MaxIx=3,W={1}; beyond that recorded histories (exploration). remove_node driven on degree<=5 nodes (spec searches removal orders). u16/u32/usize limits unreachable.",
   design="4/C01", technique="TLA+ spec + TLC model checking + trace validation of real executions"),
 "C02": dict(
   text="StableAbs.tla (stable indices, any non-live index may be handed out, Err leaves everything unchanged, counts/bounds/iterators describe the same element set) is model-checked by TLC for Ix3, and StableImpl.tla (doubly linked node free list, singly linked edge free list, vacancy reuse, counters as coded) is model-checked for its structural invariants and refinement of StableAbs with a negative-control configuration; every state of a TLC state cover (StableCover.tla) is reconstructed on the real StableGraph and every operation fanned out from it; the real StableGraph is driven in debug AND release profiles with seeded random histories, vacancy-stress scenarios that refill to the index limit after reverse/clear_edges/map/filter_map/retain/clone/conversion, and u8 limit histories; TLC validates every recorded trace against StableAbs (MGTrace.tla) including full observations.",
   note="Trusted: TLC + Json module, harness recorder. Exhaustive only for MaxIx=3,W={1}. Which vacancy is reused is deliberately unspecified (logged index resolves it). Three genuine defects were found and fixed (KNOWN_FINDINGS.json).",
   design="4/C02", technique="TLA+ spec + TLC model checking + trace validation of real executions"),
 "C03": dict(
   text="SGAbs.tla states GraphMap as a simple graph on node values (add_edge inserts endpoints and returns the previous weight, remove_node removes exactly the incident edges, undirected edges symmetric with the queried node as source / target, self-loops once, to_index/from_index inverse bijections); the real GraphMap (Directed/Undirected x RandomState, Fx and an all-colliding BuildHasher) is driven with seeded random histories biased to self-loops, reciprocal pairs and remove-then-re-add, plus clone and into_graph/from_graph round trips; every call is a trace event and TLC validates the trace against SGAbs (SGTrace.tla) including full observations (neighbors, neighbors_directed, edges, edges_directed, nodes, all_edges, contains_*, edge_weight for all key pairs).",
   note="Trusted: TLC + Json module, harness recorder. No bounded model check of SGAbs (its actions are deterministic given the logged results): exploration of recorded histories. Keys are i32 from a small pool (<= 10 distinct).",
   design="4/C03", technique="TLA+ spec + trace validation of real executions"),
 "C04": dict(
   text="SGAbs.tla states MatrixGraph as a simple graph with stable ids (add_node may return any non-live id; a reused id starts without edges because removal drops the incident edges; edge_count = |E|); the real MatrixGraph (Directed/Undirected x Option/NotZero x u8/u16/u32/usize) is driven with seeded random histories between existing nodes whose node counts cross the 4/8/16/32/64 capacity steps with heavy remove/re-add; TLC validates every trace against SGAbs including has_edge, edge weights, neighbors, edges, neighbors_directed/edges_directed, node and edge references. One segment in three starts from an exactly-sized, completely filled matrix (widths 2,3,5,6,7) so the first growth must move every cell. MatrixGrow.tla is an implementation-shaped model of the in-place matrix growth (row loop, block vs element-wise swap, rounding, triangular layout) model-checked for every (old capacity, request, exact, directedness) in bounds for layout, no-loss, loop-progress invariants and termination; each completed behaviour is replayed through the real private routine (cfg(petgraph_verif) hook) and the final Vec compared cell by cell.",
   note="Trusted: TLC + Json module, harness recorder. Calls naming absent nodes are outside C04's quantifier and are not driven; a try_update_edge refusal between existing nodes (matrix not grown yet) is accepted as long as nothing changes. Two defects found and fixed (remove_node edge_count, Incoming edge orientation).",
   design="4/C04", technique="TLA+ spec + trace validation of real executions; TLA+ model of the growth algorithm model-checked and replayed into the real routine"),
 "C05": dict(
   text="SGAbs.tla states Csr (duplicate add_edge returns false, rows strictly ascending, undirected edges in both rows, from_sorted_edges Ok iff strictly sorted and then equal to the incremental build, out-of-range endpoints Err/panic and unchanged) and adj::List (parallel edges kept, edge index = (from, rank) stable, find/update first match, insertion order); the real structures are driven with seeded random histories including 45-node hubs whose rows cross the 32-entry binary-search cutoff with probes around every neighbour; TLC validates every trace against SGAbs.",
   note="Trusted: TLC + Json module, harness recorder. Queries on absent Csr nodes are documented panics and are not driven. Defects found and fixed: adj::List::update_edge accepted an out-of-range target; Csr undirected edge_references doubled edges (C09).",
   design="4/C05", technique="TLA+ spec + trace validation of real executions"),
 "C06": dict(
   text="For every encoding (Graph, StableGraph, GraphMap, MatrixGraph, Csr, adj::List) x history (incl. vacant indices) of an abstract graph and every adaptor stack (identity via &, Frozen, Reversed, Reversed(Reversed), UndirectedAdaptor, NodeFiltered by parity, EdgeFiltered by weight, and the depth-2 stacks Reversed(NodeFiltered), NodeFiltered(Reversed), Reversed(EdgeFiltered), EdgeFiltered(Reversed), NodeFiltered(EdgeFiltered)) every visit-trait method the type implements is called (node_identifiers, node_references, edge_references, node_count, edge_count, node_bound/to_index/from_index, NodeCompactIndexable, neighbors, neighbors_directed, edges, edges_directed, adjacency_matrix + is_adjacent for all pairs, is_directed); TLC judges all of them against the one graph the adaptor must present (OracleC06.tla: g, reversed, symmetrised, node-induced, edge-restricted).",
   note="Trusted: TLC, OracleC06.tla, harness id mapping. Filter predicates: parity of the abstract id, weight threshold. Per-node queries at a node that a NodeFiltered excludes must come back empty (the presented graph has no edge there). Recorded finding: UndirectedAdaptor (self-loops / undirected inner graphs doubled, incoming edges not re-oriented). Fixed: Reversed is_adjacent, StableGraph is_adjacent, MatrixGraph Incoming orientation, Csr undirected edge_references.",
   design="4/C06", technique="TLA+ oracle spec evaluated by TLC on recorded (input, adaptor, output) triples"),
 "C07": dict(
   text="Cross-product driver: every algorithm covered by the oracles of C09, C10, C11, C12, C15, C16 and C20 is run on every encoding (Graph, StableGraph, MatrixGraph, GraphMap, Csr, adj::List) x history (fresh, shuffled, garbage-then-remove leaving vacant indices / swap renumbering) of the same abstract graph, with its own seeds; every run is judged by that algorithm's TLA+ oracle (equal where unique, equally valid and optimal where not), and a panic, hang or out-of-bounds on one encoding is a rejection. The algorithm x encoding applicability matrix is written to the evidence.",
   note="Trusted: the oracles of the individual properties. VF2 (Graph only by its bounds) and the walkers are covered in C13 / C08. Several sizing defects (node_count vs node_bound) were found this way and fixed; page_rank on index spaces with holes is a recorded finding.",
   design="4/C07", technique="TLA+ oracle specs evaluated by TLC on recorded (input, encoding, output) triples"),
 "C08": dict(
   text="Dfs, DfsPostOrder (each with move_to continuation and reset), Bfs, Topo (with reset) and depth_first_search under control scripts (Prune on Discover / TreeEdge / non-tree edges / Finish, Break at a chosen event, several start sets) are run directly and through Reversed on every encoding x history; TLC judges every emission / event sequence against OracleC08.tla: exactly the reachable nodes each once, Bfs in non-decreasing hop distance (minimum walk length), DfsPostOrder only after successors that cannot reach back, Topo exactly the nodes not on or downstream of a cycle each after all predecessors, and for depth_first_search a replay of the event list through the search state machine (well-nested Discover/Finish with strictly increasing times, edge class by discovered/finished state of the target, every neighbour reported with multiplicity, Prune and Break honoured, Prune on Finish = documented panic).",
   note="Trusted: TLC, Paths/GraphTheory definitions, harness id mapping. The oracle accepts every legal order (neighbour order is unspecified). Inputs bounded (exhaustive n<=3, random n<=5/6). NodeFiltered/EdgeFiltered/UndirectedAdaptor walkers are exercised in C06.",
   design="4/C08", technique="TLA+ oracle spec evaluated by TLC on recorded (input, output) pairs"),
 "C09": dict(
   text="Every C09 algorithm (kosaraju_scc, tarjan_scc, TarjanScc::run + node_component_index, connected_components, has_path_connecting with fresh and reused DfsSpace, is_cyclic_directed/undirected, is_bipartite_undirected, toposort fresh/reused, condensation with and without make_acyclic) is run on every encoding (Graph, StableGraph, MatrixGraph, GraphMap, Csr, adj::List) x history (fresh, shuffled, garbage-then-remove) of exhaustive small graphs and seeded random/adversarial shapes; each recorded output is judged by TLC against definitions in GraphTheory.tla/OracleC09.tla (reachability closure, mutual-reachability classes, forest edge count, 2-colourability by exhaustive colouring).",
   note="Trusted: TLC, GraphTheory.tla definitions, harness id mapping. Inputs bounded (exhaustive n<=3, random n<=6/7, binomial union orders to 16 nodes): exploration beyond. One genuine defect (Csr undirected edge_references) found and fixed.",
   design="4/C09", technique="TLA+ oracle spec evaluated by TLC on recorded (input, output) pairs"),
 "C10": dict(
   text="dijkstra (with/without goal), astar (goal sets; zero, exact and admissible-but-inconsistent heuristics whose admissibility the oracle re-checks) and k_shortest_path (k=1..3) run on every admissible encoding x history with integer and f64 costs including zero-cost edges; outputs judged by TLC against OracleC10.tla: distances = minimum over all walks of bounded length (Paths.tla), path validity and optimality, k-th cheapest walk by counting walks per (length, node, cost).",
   note="Trusted: TLC, Paths.tla definitions, harness id mapping. k_shortest_path oracle only for n<=3 and costs<=3 (DP size). Costs are small integers (floats exact). One defect found and fixed (k_shortest_path sizing).",
   design="4/C10", technique="TLA+ oracle spec evaluated by TLC on recorded (input, output) pairs"),
 "C11": dict(
   text="bellman_ford and find_negative_cycle (f32/f64 graph weights), spfa (i32/i64/f32/f64 costs), floyd_warshall and floyd_warshall_path (i64/f64) run from every source on every admissible encoding x history with costs in -3..4; judged by TLC against OracleC11.tla: NegativeCycle iff one more edge still improves a bounded-length minimum walk, exact distances with INF for unreachable, predecessor maps that are shortest-path trees, closed negative walks for find_negative_cycle.",
   note="Trusted: TLC, Paths.tla definitions. Inputs bounded (exhaustive n<=3, random n<=5/7). Three defects found and fixed (two in floyd_warshall, one in find_negative_cycle). The suspected spfa false NegativeCycle was not observed.",
   design="4/C11", technique="TLA+ oracle spec evaluated by TLC on recorded (input, output) pairs"),
 "C12": dict(
   text="min_spanning_tree element streams (Graph, StableGraph with vacancies, Csr; i64 and f64 weights with ties) and min_spanning_tree_prim (undirected) judged by TLC against OracleC12.tla: all nodes first in graph order, edges are edges of g (multiset inclusion), acyclic, spanning, |V|-c of them, total weight = minimum over ALL spanning forests (enumerated as k-subsets of the edge set).",
   note="Trusted: TLC, GraphTheory.tla. Brute-force minimality bounds inputs to <= ~12 edges; binomial union orders up to 16 nodes included for the UnionFind path.",
   design="4/C12", technique="TLA+ oracle spec evaluated by TLC on recorded (input, output) pairs"),
 "C13": dict(
   text="is_isomorphic, is_isomorphic_matching, is_isomorphic_subgraph, is_isomorphic_subgraph_matching and subgraph_isomorphisms_iter (with and without weight predicates) on pairs of simple (di)graphs with loops (relabelled copies, near misses, induced subgraphs, independent pairs; three build histories each) judged by TLC against OracleC13.tla, which enumerates ALL injective node maps: existence, the exact SET of mappings yielded, each once; non-termination (more than 600 yielded mappings) is a rejection.",
   note="Trusted: TLC, OracleC13.tla. Pairs bounded to <= 4 nodes per graph, weights in {0,1}, predicates = equality. One defect found and fixed (empty pattern looped forever).",
   design="4/C13", technique="TLA+ oracle spec evaluated by TLC on recorded (input, output) pairs"),
 "C14": dict(
   text="AcyclicPK.tla models the order maintenance as coded (OrderMap positions with gaps, the two range-trimmed DFS cones sharing one visited set, the reorder, DiGraph renaming on removal, StableDiGraph id reuse) and is model-checked for valid order, injective positions, no reachable assertion, refusal iff self-loop or cycle, refusal changes nothing, for both inner types (N=4 exhaustively; N=5 in the thorough tier), with two negative-control mutants; one history per distinct model state is replayed on the real wrapper and every call forked from it (clone). The Acyclic actions of MGTrace.tla (on top of GraphAbs/StableAbs): an insertion is rejected exactly for a self-loop or when the target already reaches the source (reachability closure), a rejected call changes nothing (graph and order), try_from_graph/TryFrom accept exactly the acyclic graphs, remove_node of an absent/already removed node changes nothing, and after every call the logged order (nodes_iter) must be a permutation of exactly the live nodes with every edge forward, with get_position strictly increasing along it, at_position its inverse, range() its sub-sequences and is_valid_edge = 'not a self-loop and no path back'; invariant: no directed cycle while wrapped. Real Acyclic<DiGraph>/Acyclic<StableDiGraph> histories (debug; release in thorough) including removal of non-last DiGraph nodes and repeated removals are validated by TLC.",
   note="Trusted: TLC + Json module, harness recorder; positions are opaque so their consistency is computed by the harness via the public API. Which valid order is kept is unspecified. Two defects found and fixed (remove_node of absent node, DiGraph renumbering not followed).",
   design="4/C14", technique="TLA+ spec + TLC model checking of the algorithm + TLC-generated state cover replayed on the code + trace validation of real executions"),
 "C15": dict(
   text="greedy_matching and maximum_matching (all accessors) on every encoding, ford_fulkerson (u32 and f64 capacities, parallel/antiparallel edges) on Graph and StableGraph with vacancies; judged by TLC against OracleC15.tla: valid matching with consistent accessors, size = maximum over ALL matchings (subset enumeration), flow feasibility, conservation, value = net out of s = minimum over all s-t cuts.",
   note="Trusted: TLC, OracleC15.tla. Inputs bounded to <= 10 edges. Recorded finding: maximum_matching on directed graph types is not maximum (documented as 'treated as undirected'; a repair changes trait bounds). ford_fulkerson sizing defect fixed.",
   design="4/C15", technique="TLA+ oracle spec evaluated by TLC on recorded (input, output) pairs"),
 "C16": dict(
   text="dominators::simple_fast from every root (dominators, strict_dominators, immediate_dominator, immediately_dominated_by) on every encoding of directed graphs, and articulation_points on every encoding of undirected multigraphs with loops, judged by TLC against OracleC16.tla: A dom B iff B is unreachable from the root once A is deleted; cut vertex iff deletion increases the component count.",
   note="Trusted: TLC, GraphTheory.tla. Inputs bounded (exhaustive n<=3, random n<=6/7). One defect found and fixed (articulation_points sizing).",
   design="4/C16", technique="TLA+ oracle spec evaluated by TLC on recorded (input, output) pairs"),
 "C20": dict(
   text="maximal_cliques (exact set, each once), dsatur_coloring (proper, colours 0..k-1, k<=2 on bipartite), greedy_feedback_arc_set (rest acyclic), dag_to_toposorted_adjacency_list + dag_transitive_reduction_closure (exact reduction and closure by reachability), all_simple_paths (exact set within bounds, each once on simple graphs), steiner_tree (tree inside the graph, terminals, leaves, weight <= 2 OPT with OPT by brute force), page_rank (non-negative, sums to 1, identical per abstract node across encodings/numberings) judged by TLC against OracleC20.tla.",
   note="Trusted: TLC, OracleC20.tla. Inputs bounded (n<=5/6). PageRank compared at 1e-6 scale with tolerance; convergence not decided. Recorded finding: page_rank on index spaces with holes. Fixed: dsatur empty graph, StableGraph is_adjacent (found through maximal_cliques).",
   design="4/C20", technique="TLA+ oracle spec evaluated by TLC on recorded (input, output) pairs"),
 "C17": dict(
   text="Graph and StableGraph histories with node and edge vacancies are followed by serde round trips through JSON and bincode, into the same type and across Graph <-> StableGraph, by 16 kinds of structural JSON mutation (dropped / retyped fields, endpoints out of range / at max / at a declared hole, duplicated, unsorted or out-of-bound holes, added / removed nodes, nulled / truncated / duplicated edges, flipped edge property) and 5 kinds of byte mutation of bincode streams, and by further use of whatever came back. TLC validates against MGTrace.tla: the JSON document equals the wire format WireDoc of the abstract state; an unmodified stream loads to the identical graph (same indices, vacancies up to the bounds; a stream with vacancies is refused as a Graph); a mutated stream gives Err or a well-formed graph (AdoptOK) whose later behaviour stays inside GraphAbs/StableAbs; a panic is never accepted.",
   note="Trusted: TLC incl. its Json reader on the transcoded document, harness recorder. Weights i32; index widths u8/u16/u32/Ix4/Ix7; bincode bytes opaque. GraphMap round trips are in the C03 driver. Fixed: edge incident to a declared hole accepted. Recorded finding: a completely full graph (max() elements) does not round-trip; the repair contradicts the existing test from_json_edges_too_big.",
   design="4/C17", technique="TLA+ spec + trace validation of real executions"),
 "C18": dict(
   text="graph6: graph6_string() of Graph, StableGraph, GraphMap, MatrixGraph and Csr (fresh / shuffled / garbage-then-remove histories) must equal Graph6.tla - an independent TLA+ definition of the format (header N(n) short and long, column-major upper triangle, 6-bit big-endian groups +63) - applied to the adjacency in node-iteration order; from_graph6_string into all five types must rebuild exactly the encoded graph, the input strings coming from a harness encoder that the oracle first checks against Graph6.tla; header arithmetic is asserted up to 258047. Dot: the printed text for all Config subsets x Display/Debug/alternate with adversarial weight strings is tokenized and parsed by DotLex.tla (quoted strings with backslash escapes, statements node / edge / attribute): exactly one node statement per node index, one edge statement per edge with the right connector and endpoints, labels present as configured and containing the formatted weight after unescaping - so no weight ended its label early or injected a statement.",
   note="Trusted: TLC, Graph6.tla, DotLex.tla, Rust's own formatter for the expected label text. graph6 orders: exhaustive 0..4, random 5..12, 61..70 around the header switch; Dot graphs up to 4 nodes / 5 edges. Encode/decode fidelity is a weak fit for the technique (stated in DESIGN.md) but both halves have a crisp function / automaton reading.",
   design="4/C18", technique="TLA+ oracle specs (format definition, lexer/parser automaton) evaluated by TLC on recorded outputs"),
 "C19": dict(
   text="TLC exhaustively model-checks UnionFindAbs (equivalence = connectivity generated by the unions; MaxN<=4/5) and UnionFindImpl (parent/rank forest invariants, refinement to Abs); a TLC-generated transition cover of UnionFindImpl plus exhaustive and seeded random histories (all index widths, u8 to 256 elements, out-of-range arguments, panicking variants) are executed on the real UnionFind and every recorded trace is validated by TLC against UnionFindAbs.",
   note="Trusted: TLC + CommunityModules Json, the harness recorder. Exhaustive within MaxN only; beyond, exploration of recorded histories. Memory safety of get_unchecked not decided (only the index arithmetic guarding it).",
   design="4/C19", technique="TLA+ spec + TLC model checking + refinement + trace validation of real executions"),
}

def main():
    checks = []
    for p in ALL:
        if p not in CLAIMED: continue
        c = CLAIMED[p]
        checks.append({
            "property_id": p,
            "quick_cmd": "./check %s --tier quick" % p,
            "thorough_cmd": "./check %s --tier thorough" % p,
            "evidence_file": "evidence/%s.json" % p,
            "replay_cmd_template": "./check %s --replay {path}" % p,
            "engine": "tlc",
            "level_claimed": {"category": "model_checking", "text": c["text"], "design_ref": c["design"]},
            "level_note": c["note"],
            "technique": c["technique"],
        })
    na = [{"property_id": p, "reason": "check not built yet in this round (planned: DESIGN.md section 4); no claim is made"} for p in ALL if p not in CLAIMED]
    m = {
      "version": 1,
      "setup_cmd": "./setup.sh",
      "hooks": {
        "guard": "petgraph_verif",
        "enable": "harness/.cargo/config.toml passes --cfg petgraph_verif in rustflags when building the path dependency /repo",
        "baseline_off_cmd": "cd /repo && cargo test --workspace --no-fail-fast --offline",
        "source_commits": ["b7dfd99"],
        "add_only": True,
      },
      "engines": [{"name": "tlc", "path": "check", "serves_properties": [c["property_id"] for c in checks],
                   "kind_free_text": "TLA+ specs under spec/ checked with TLC; Rust harness under harness/ drives petgraph and records ndjson traces; python driver tools/"}],
      "checks": checks,
      "not_applicable": na,
      "notes": "See DESIGN.md. Exit codes: 0 held, 1 VIOLATION (+replay file), 2 tool error.",
    }
    json.dump(m, open(os.path.join(V, "MANIFEST.json"), "w"), indent=1)
main()
