"""C18: graph6_string() of five graph types (three build histories each, StableGraph / MatrixGraph after
removals) must equal the TLA+ definition of the format (Graph6.tla) applied to the adjacency in node-iteration
order; from_graph6_string into five types must rebuild exactly the encoded graph (input strings come from a
harness encoder that the oracle first checks against Graph6.tla); Dot output (all Config subsets x Display /
Debug / alternate, adversarial weight strings, Graph and StableGraph with a vacancy) must tokenize and parse with
DotLex.tla into exactly one node statement per node index and one edge statement per edge with the right
connector and the configured labels."""
from props.algocommon import *

MODULE = "codec/OracleC18"

def run(tier, seed):
    run = Run("C18", tier, seed)
    build_harness()
    th = tier == "thorough"
    tp = os.path.join(OUT, "traces", "C18-sweep.ndjson")
    recs, died = vh_records(["codec-sweep", "--seed", seed, "--small", 300 if th else 40, "--big", 70 if th else 14, "--dots", 60 if th else 8], tp, timeout=1800 if th else 900)
    if died:
        g = died["during"]
        run.violation({"kind": "crash", "prop": "C18", "rc": died["rc"], "what": g.get("kind"), "n": g.get("n")}, [dict(g, crashed=True)], header={"exec": "codec-sweep"})
    g6 = [r for r in recs if r.get("kind") == "g6"]
    dots = [r for r in recs if r.get("kind") == "dot"]
    run.extra["graph6_records"] = len(g6); run.extra["dot_records"] = len(dots)
    run.extra["max_order"] = max(r["n"] for r in g6)
    if dots:
        d = dots[len(dots) // 2]
        run.sample({"dot_text": "".join(chr(c) for c in d["text"][1]), "cfg": d["cfg"], "fmt": d["fmt"]})
    judge(run, "C18", MODULE, recs, "C18 graph6 + Dot")
    run.assumptions = ["graph6: all graphs on 0..4 nodes, random 5..12, orders 61..70 incl. empty and complete graphs; orders up to 258047 only through the header arithmetic (ASSUME HeaderRoundTrip in OracleC18.tla)",
                       "Dot: weights over the alphabet {\" \\ newline CR ] [ ; { } - > a space l}^<=4 plus an injection attempt; labels are checked to contain the formatted weight as a prefix after unescaping (alternate formatting appends a line break)",
                       "TLC evaluating Graph6.tla / DotLex.tla is the oracle"]
    return run.finish()

def replay(path, seed):
    run = Run("C18", "quick", seed)
    recs = [e for e in read_ndjson(path) if "replay" not in e]
    judge(run, "C18", MODULE, recs, "replay (recorded outputs)")
    return 1 if run.violations else 0
