"""C16: dominators::simple_fast and articulation_points judged by OracleC16.tla (path-based definitions)."""
from props.algocommon import *

MODULE = "algo/OracleC16"

def run(tier, seed):
    run = Run("C16", tier, seed)
    build_harness()
    th = tier == "thorough"
    # the algorithm as coded (Cooper-Harvey-Kennedy), with every DFS order and every predecessor-set iteration order
    d = os.path.join(SPEC, "algo")
    base = open(os.path.join(d, "MCDomCHK.cfg")).read()
    run.add_mc("DomCHK N=3 with loops (all DFS / fold orders, termination)", tlc("algo/DomCHK", "MCDomCHK.cfg", workers=6, timeout=900, tag="c16dom3"))
    open(os.path.join(d, "out_MCDomCHK.cfg"), "w").write(base.replace("N = 3", "N = 4").replace("Loops = TRUE", "Loops = %s" % ("TRUE" if th else "FALSE")).replace("PROPERTY Terminates\n", "").replace("FairSpec", "Spec"))
    run.add_mc("DomCHK N=4 %s" % ("with loops" if th else "without loops"), tlc("algo/DomCHK", "out_MCDomCHK.cfg", workers=10, timeout=2400, tag="c16dom4"))
    if th:
        # five nodes, at most seven edges: the smallest irreducible graphs that need a third sweep live here
        open(os.path.join(d, "out_MCDomCHK.cfg"), "w").write(base.replace("N = 3", "N = 5").replace("MaxEdges = 16", "MaxEdges = 7").replace("Loops = TRUE", "Loops = FALSE").replace("PROPERTY Terminates\n", "").replace("FairSpec", "Spec"))
        run.add_mc("DomCHK N=5, at most 7 edges", tlc("algo/DomCHK", "out_MCDomCHK.cfg", workers=10, timeout=2400, tag="c16dom5"))
    os.remove(os.path.join(d, "out_MCDomCHK.cfg"))
    recs, matrix = sweep(run, "C16", seed, 3, 400 if th else 60, 7 if th else 6)
    run.extra["applicability_matrix"] = matrix
    mid = recs[len(recs) // 2]
    run.sample({k: mid[k] for k in list(mid)[:9]})
    judge(run, "C16", MODULE, recs, "C16 sweep")
    run.assumptions = ["DomCHK.tla is a transcription of simple_fast; it shows the algorithm correct for every digraph of the bound under every traversal and hash-set order, but it is bound to the code only through the oracle runs below",
                       "inputs: exhaustive small (multi)graphs with loops up to 3 nodes (sampled above 5000 codes), seeded random shapes up to nmax nodes, both edge types, every encoding x history the trait bounds admit (applicability_matrix)",
                       "TLC evaluating the TLA+ definitions is the oracle; the harness maps node ids back to abstract ids; costs are small integers (floats exact)"]
    return run.finish()

def replay(path, seed):
    return replay_oracle("C16", MODULE, path, seed)
