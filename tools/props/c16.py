"""C16: dominators::simple_fast and articulation_points judged by OracleC16.tla (path-based definitions)."""
from props.algocommon import *

MODULE = "algo/OracleC16"

def run(tier, seed):
    run = Run("C16", tier, seed)
    build_harness()
    th = tier == "thorough"
    recs, matrix = sweep(run, "C16", seed, 3, 400 if th else 60, 7 if th else 6)
    run.extra["applicability_matrix"] = matrix
    mid = recs[len(recs) // 2]
    run.sample({k: mid[k] for k in list(mid)[:9]})
    judge(run, "C16", MODULE, recs, "C16 sweep")
    run.assumptions = ["inputs: exhaustive small (multi)graphs with loops up to 3 nodes (sampled above 5000 codes), seeded random shapes up to nmax nodes, both edge types, every encoding x history the trait bounds admit (applicability_matrix)",
                       "TLC evaluating the TLA+ definitions is the oracle; the harness maps node ids back to abstract ids; costs are small integers (floats exact)"]
    return run.finish()

def replay(path, seed):
    return replay_oracle("C16", MODULE, path, seed)
