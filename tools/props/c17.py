"""C17 serde: Graph / StableGraph histories with vacancies followed by JSON and bincode round trips (same type
and across Graph <-> StableGraph), structurally mutated JSON documents and byte-mutated bincode streams, and
further use of whatever came back; validated by TLC against MGTrace.tla: the JSON document must equal the wire
format WireDoc of the abstract state, an unmodified stream must load to the identical graph (same indices,
vacancies up to the bounds; a stream with vacancies is not a Graph), a mutated stream must give Err or a
well-formed graph (AdoptOK) whose later behaviour stays inside GraphAbs/StableAbs; a panic is never accepted.
GraphMap: histories in which a third of the calls load a foreign Graph stream (repeated node weights, parallel edges,
a-b plus b-a) through from_graph / bincode / JSON or round-trip the map itself, validated against SGAbs (SGTrace.tla:
TrLoad = fold of add_edge over the stream; a round trip is a no-op)."""
from props.mgcommon import *
import props.sgcommon as sgc

def run(tier, seed):
    run = Run("C17", tier, seed)
    build_harness()
    th = tier == "thorough"
    for rel in ([False, True] if th else [False]):
        if rel:
            build_harness(release=True)
        tp = os.path.join(OUT, "traces", "C17-serde.ndjson")
        evs = vh_trace(["mg-serde", "--seed", seed + (31 if rel else 0), "--segments", 1500 if th else 160, "--len", 70 if th else 50], tp, release=rel)
        docs = [e for e in evs if e.get("op") == "ser" and "doc" in e]
        if docs:
            run.sample({"ser_doc": docs[len(docs) // 2]["doc"]})
        run.extra["round_trips"] = len([e for e in evs if e.get("op") == "de" and not e.get("mutated")])
        run.extra["mutated_streams"] = len([e for e in evs if e.get("op") == "de" and e.get("mutated")])
        run.extra["mutated_accepted"] = len([e for e in evs if e.get("op") == "de" and e.get("mutated") and e.get("ret") == ["s", "ok"]])
        validate(run, "serde histories (%s)" % ("release" if rel else "debug"), evs, "C17")
    # GraphMap's serde (its wire format is a Graph): loads of foreign streams and own round trips
    tp = os.path.join(OUT, "traces", "C17-map.ndjson")
    evs = vh_trace(["sg-random", "--prop", "C17", "--seed", seed, "--segments", 240 if th else 36, "--len", 60], tp)
    run.extra["graphmap_loads"] = len([e for e in evs if e.get("op") == "load"])
    run.extra["graphmap_round_trips"] = len([e for e in evs if e.get("op") == "noeffect" and str(e.get("which", "")).startswith("serde_")])
    res = validate_trace(sgc.TRACE, "SGTrace.cfg", evs, "c17map", parallel=10, chunk_events=3000, timeout=900)
    run.add_validation("GraphMap serde histories", res)
    report_rejections(run, res, "sg-random", sgc.TRACE, sgc.sig_fn)
    run.assumptions = ["TLC (incl. its Json module reading the transcoded document: null -> \"none\" / [-1,-1,-1]) and the harness recorder are trusted",
                       "weights are i32; index widths u8, u16, u32 and the tiny Ix4/Ix7 (streams at the index limit); bincode bytes are opaque to the spec (only results and projections are judged)",
                       "mutations: 16 structural JSON mutations and 5 byte-level bincode mutations, sampled"]
    return run.finish()

def replay(path, seed):
    return replay_common("C17", path, seed)
