"""Shared by C03 (GraphMap), C04 (MatrixGraph), C05 (Csr, adj::List): SGAbs / SGTrace."""
import json, os
from vlib import *

TRACE = "simple/SGTrace"

def sig_fn(rj):
    return {"kind_at": rj.segment[0].get("kind"), "directed": rj.segment[0].get("directed"),
            "prev_op": rj.segment[rj.index - 1].get("op") if rj.index > 0 else None,
            "retfull": rj.event.get("ret") if rj.event.get("op") != "obs" else None}

def run_sg(prop, tier, seed, what):
    run = Run(prop, tier, seed)
    build_harness()
    th = tier == "thorough"
    for rel in ([False, True] if th else [False]):
        if rel:
            build_harness(release=True)
        tp = os.path.join(OUT, "traces", "%s-sg.ndjson" % prop)
        evs = vh_trace(["sg-random", "--prop", prop, "--seed", seed + (500 if rel else 0), "--segments", 1200 if th else 48, "--len", 140 if th else 70], tp, release=rel)
        run.sample({"events": [{k: v for k, v in e.items() if k not in ("per", "pairs")} for e in evs[1:6]]})
        res = validate_trace(TRACE, "SGTrace.cfg", evs, prop.lower() + "sg", parallel=10, chunk_events=3000, timeout=900)
        run.add_validation("%s random histories (%s)" % (what, "release" if rel else "debug"), res)
        report_rejections(run, res, "sg-random", TRACE, sig_fn)
    run.assumptions = ["TLC + Json module and the harness recorder (public API only) are trusted",
                       "SGAbs.tla is the abstract simple graph; it is validated against real executions only (no separate bounded model check: the actions are deterministic given the logged results)",
                       "every recorded history was accepted: exploration, bounded by the seeds and lengths stated"]
    return run

def replay_sg(prop, path, seed):
    # segments are not scripted separately: the recorded events are re-judged as they are
    run = Run(prop, "quick", seed)
    evs = [e for e in read_ndjson(path) if "replay" not in e]
    res = validate_trace(TRACE, "SGTrace.cfg", evs, prop.lower() + "rp")
    run.add_validation("replay (recorded events)", res)
    report_rejections(run, res, "sg-random", TRACE, sig_fn)
    return 1 if run.violations else 0
