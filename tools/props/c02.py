"""C02 StableGraph: StableAbs model-checked by TLC; random / index-limit histories on the real
StableGraph in debug and release profiles validated by TLC against StableAbs (MGTrace)."""
from props.mgcommon import *

def run(tier, seed):
    r = run_common("C02", True, tier, seed)
    return r.finish()

def replay(path, seed):
    return replay_common("C02", path, seed)
