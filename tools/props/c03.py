"""C03: random histories on the real container validated by TLC against SGAbs.tla (SGTrace.tla)."""
from props.sgcommon import *

def run(tier, seed):
    return run_sg("C03", tier, seed, {"C03": "GraphMap", "C04": "MatrixGraph", "C05": "Csr / adj::List"}["C03"]).finish()

def replay(path, seed):
    return replay_sg("C03", path, seed)
