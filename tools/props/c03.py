"""C03: random histories on the real GraphMap validated by TLC against SGAbs.tla (SGTrace.tla), plus the
implementation-shaped model of GraphMap's two index maps and adjacency vectors (GraphMapImpl.tla): model-checked,
and every exported state history replayed on the real GraphMap."""
from props.sgcommon import *


def gm_stage(run, thorough):
    d = os.path.join(SPEC, "simple")
    base = open(os.path.join(d, "MCGraphMapImpl.cfg")).read()
    tmp = os.path.join(d, "out_MCGraphMapImpl.cfg")
    scripts = []

    def cfg(directed, keys, ops, export=False):
        q = base.replace("Keys = {0, 1, 2}", "Keys = %s" % keys).replace("MaxOps = 7", "MaxOps = %d" % ops).replace("Directed = TRUE", "Directed = %s" % ("TRUE" if directed else "FALSE"))
        if export:
            q = q.replace("INVARIANT Inv", "INVARIANT Inv Export")
        open(tmp, "w").write(q)

    for directed in (True, False):
        name = "directed" if directed else "undirected"
        ops3 = (6 if directed else 7) if thorough else 5
        cfg(directed, "{0, 1, 2}", ops3)
        run.add_mc("GraphMapImpl %s 3 keys, %d calls" % (name, ops3), tlc("simple/GraphMapImpl", "out_MCGraphMapImpl.cfg", workers=10, timeout=2400, tag="c03gm"))
        cfg(directed, "{0, 1}", 9)
        run.add_mc("GraphMapImpl %s 2 keys (complete)" % name, tlc("simple/GraphMapImpl", "out_MCGraphMapImpl.cfg", workers=6, timeout=900, tag="c03gm2"))
        for keys, ops in (("{0, 1}", 9), ("{0, 1, 2}", 4)):
            cfg(directed, keys, ops, export=True)
            r = tlc("simple/GraphMapImpl", "out_MCGraphMapImpl.cfg", workers=1, timeout=900, tag="c03gmx")
            run.add_mc("GraphMapImpl export", r)
            scripts += [parse_printed_json(l, "GMAP")[1] for l in r.printed("GMAP")]
    os.remove(tmp)
    # one history per distinct model state (TLC prints a line per generated state)
    seen, uniq = set(), []
    for sc in scripts:
        k = json.dumps([sc["directed"], sc["nodes"], sc["adj"], [e[:2] for e in sc["edges"]], sc["hist"][-1]["res"] if sc["hist"] else ""])
        if k not in seen:
            seen.add(k)
            uniq.append(sc)
    scripts = uniq
    if not scripts:
        raise ToolError("GraphMapImpl export printed nothing")
    inp = os.path.join(OUT, "traces", "C03-gm-in.ndjson")
    outp = os.path.join(OUT, "traces", "C03-gm-out.ndjson")
    write_ndjson(inp, scripts)
    res, died = vh_records(["gm-replay", "--in", inp], outp)
    if died:
        i = died["during"].get("i", len(res))
        run.violation({"kind": "crash", "exec": "gm-replay", "rc": died["rc"], "calls": len(scripts[i]["hist"]) if i < len(scripts) else -1}, [scripts[min(i, len(scripts) - 1)]], header={"exec": "gm-replay"})
        scripts = scripts[:len(res)]
    elif len(res) != len(scripts):
        raise ToolError("gm-replay answered %d of %d" % (len(res), len(scripts)))
    bad = [x for x in res if not x["ok"]]
    run.traces += len(res) - len(bad)
    run.extra["graphmapimpl_histories_replayed"] = len(res)
    run.extra["graphmapimpl_order_agreement"] = "%d of %d replayed states also have the iteration orders the model predicts (informational: C03 does not promise them)" % (len([x for x in res if x["same_order"]]), len(res))
    log("[gm] %d GraphMapImpl histories replayed on the real GraphMap, %d differ; %s" % (len(res), len(bad), run.extra["graphmapimpl_order_agreement"]))
    for x in bad[:5]:
        sc = scripts[x["i"]]
        run.violation({"kind": "graphmap_impl", "directed": sc["directed"], "calls": len(sc["hist"]), "first_diff": (x["diffs"] or ["?"])[0][:80]},
                      [dict(sc, diffs=x["diffs"])], header={"exec": "gm-replay"})
    for f in (inp, outp, outp + ".cur"):
        if os.path.exists(f):
            os.remove(f)


def run(tier, seed):
    r = run_sg("C03", tier, seed, "GraphMap")
    gm_stage(r, tier == "thorough")
    r.assumptions.append("GraphMapImpl.tla: exhaustive for 2 keys, and for 3 keys up to 5 calls (6/7 in the thorough tier); results, node set and edge map of every exported history equal the real GraphMap's")
    return r.finish()


def replay(path, seed):
    evs = read_ndjson(path)
    if evs and evs[0].get("replay", {}).get("exec") == "gm-replay":
        run_ = Run("C03", "quick", seed)
        build_harness()
        scripts = [e for e in evs if "replay" not in e]
        inp = os.path.join(OUT, "traces", "C03-gm-rp.ndjson")
        write_ndjson(inp, scripts)
        vh(["gm-replay", "--in", inp, "--out", inp + ".out"])
        for x in read_ndjson(inp + ".out"):
            if not x["ok"]:
                run_.violation({"kind": "graphmap_impl", "first_diff": (x["diffs"] or ["?"])[0][:80]}, [scripts[x["i"]]], header={"exec": "gm-replay"})
        return 1 if run_.violations else 0
    return replay_sg("C03", path, seed)
