"""C13: VF2 (is_isomorphic, is_isomorphic_subgraph, *_matching, subgraph_isomorphisms_iter) judged by
OracleC13.tla, which enumerates ALL injective node maps; pairs: relabelled copies, near misses (one edge
moved), induced subgraphs (with/without one edge dropped), independent pairs; Graph built through three
histories (renumbering)."""
from props.algocommon import *

MODULE = "algo/OracleC13"

def run(tier, seed):
    run = Run("C13", tier, seed)
    build_harness()
    th = tier == "thorough"
    tp = os.path.join(OUT, "traces", "C13-sweep.ndjson")
    recs, died = vh_records(["iso-sweep", "--seed", seed, "--pairs", 120000 if th else 8000], tp, timeout=1800 if th else 900)
    if died:
        g = died["during"]
        run.violation({"kind": "crash", "prop": "C13", "rc": died["rc"], "n": g.get("n"), "n1": g.get("n1"), "dir": g.get("dir")}, [dict(g, crashed=True)], header={"exec": "iso-sweep"})
    if not recs:
        return run.finish()
    mid = recs[len(recs) // 2]
    run.sample({k: mid[k] for k in ("n", "E", "nw0", "n1", "E1", "nw1", "dir", "iso", "sub", "iter") if k in mid})
    judge(run, "C13", MODULE, recs, "C13 pairs")
    run.assumptions = ["pairs of simple graphs (loops allowed) with <= 4 nodes each, node and edge weights in {0,1}, predicates = equality",
                       "only Graph satisfies the trait bounds of the VF2 functions; it is built through fresh/shuffled/garbage histories",
                       "an iterator that yields more than 600 mappings is recorded as overflow (= non-termination) and rejected"]
    return run.finish()

def replay(path, seed):
    # the recorded pair is re-judged; re-execution goes through the sweep with the same seed
    run = Run("C13", "quick", seed)
    recs = [e for e in read_ndjson(path) if "replay" not in e]
    judge(run, "C13", MODULE, recs, "replay (recorded outputs)")
    return 1 if run.violations else 0
