"""C20: maximal_cliques, dsatur_coloring, greedy_feedback_arc_set, tred/tclos, all_simple_paths, steiner_tree, page_rank judged by OracleC20.tla."""
from props.algocommon import *

MODULE = "algo/OracleC20"

def run(tier, seed):
    run = Run("C20", tier, seed)
    build_harness()
    th = tier == "thorough"
    recs, matrix = sweep(run, "C20", seed, 3, 3000 if th else 400, 7 if th else 6)
    run.extra["applicability_matrix"] = matrix
    mid = recs[len(recs) // 2]
    run.sample({k: mid[k] for k in list(mid)[:9]})
    judge(run, "C20", MODULE, recs, "C20 sweep")
    run.assumptions = ["inputs: exhaustive small (multi)graphs with loops up to 3 nodes (sampled above 5000 codes), seeded random shapes up to nmax nodes, both edge types, every encoding x history the trait bounds admit (applicability_matrix)",
                       "TLC evaluating the TLA+ definitions is the oracle; the harness maps node ids back to abstract ids; costs are small integers (floats exact)"]
    return run.finish()

def replay(path, seed):
    return replay_oracle("C20", MODULE, path, seed)
