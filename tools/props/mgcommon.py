"""Shared by C01 (Graph) and C02 (StableGraph): MGState/GraphAbs/StableAbs/MGTrace."""
import json, os
from vlib import *

TRACE = "graph/MGTrace"


def sig_fn(rj):
    # container kind at the rejected event: last reset/to_stable/to_graph before it
    kind = rj.segment[0].get("kind")
    for e in rj.segment[: rj.index + 1]:
        if e.get("op") == "to_stable":
            kind = "stable"
        elif e.get("op") == "to_graph":
            kind = "graph"
    ev = rj.event
    prev = rj.segment[rj.index - 1].get("op") if rj.index > 0 else None
    extra = {}
    if ev.get("op") == "de":
        mx = rj.segment[0].get("maxix", 0)
        st = ev.get("st", {})
        extra = {"mutated": ev.get("mutated"), "at_limit": len(st.get("nd", [])) == mx or len(st.get("ed", [])) == mx, "fmt": ev.get("fmt"), "to": ev.get("to")}
    return {**extra, "kind_at": kind, "ix": rj.segment[0].get("ix"), "directed": rj.segment[0].get("directed"), "prev_op": prev,
            "retfull": ev.get("ret") if ev.get("op") != "obs" else None}


def validate(run, name, evs, prop, chunk=4000, parallel=10):
    res = validate_trace(TRACE, "MGTrace.cfg", evs, prop.lower() + name.replace(" ", ""), parallel=parallel, chunk_events=chunk, timeout=900)
    run.add_validation(name, res)
    report_rejections(run, res, "mg-exec", TRACE, sig_fn)
    return res


def drive(run, name, args, prop, release=False):
    tp = os.path.join(OUT, "traces", "%s-%s.ndjson" % (prop, name.replace(" ", "_")))
    evs = vh_trace(args, tp, release=release)
    if evs:
        run.sample({name: [{k: v for k, v in e.items() if k not in ("per", "pairs", "eq", "st")} for e in evs[1:6]]})
    return validate(run, name, evs, prop)


def cover_stage(run, prop, stable, stride, seed):
    """spec -> code: TLC prints one shortest history per abstract state of the cover model; the harness
    replays each on the real container and forks every call of the alphabet from it; the traces go back
    through trace validation."""
    mod = "StableCover" if stable else "GraphCover"
    r = tlc("graph/" + mod, mod + ".cfg", workers=8, timeout=900, tag="cover")
    run.add_mc("%s (state cover, MaxIx=3)" % mod, r)
    scripts = []
    for line in r.printed("COVER"):
        p = parse_printed_json(line, "COVER")
        if p:
            scripts.append(p[1])
    sp = os.path.join(OUT, "traces", "%s-cover-scripts.ndjson" % prop)
    write_ndjson(sp, scripts)
    tp = os.path.join(OUT, "traces", "%s-cover.ndjson" % prop)
    evs = vh_trace(["mg-cover", "--in", sp, "--stride", stride, "--offset", seed % stride, "--seed", seed], tp, timeout=900)
    os.remove(sp)
    run.extra["cover_states"] = len(scripts)
    run.extra["cover_states_replayed"] = len([e for e in evs if e.get("op") == "save"])
    run.extra["cover_forked_calls"] = len([e for e in evs if e.get("op") == "restore"])
    if scripts:
        run.sample({"cover_history": scripts[len(scripts) // 2]})
    return validate(run, "TLC state cover + fan-out (stride %d)" % stride, evs, prop, chunk=6000, parallel=12)


def run_common(prop, stable, tier, seed):
    run = Run(prop, tier, seed)
    build_harness()
    thorough = tier == "thorough"
    spec, cfg = ("graph/StableAbs", "MCStableAbs.cfg") if stable else ("graph/GraphAbs", "MCGraphAbs.cfg")
    if stable and not thorough:
        # the full MaxIx=3 model (150 k states, 55 M transitions) takes over a minute: thorough tier only
        run.add_mc("StableAbs MaxIx=2 W={1}", tlc(spec, "MCStableAbsQuick.cfg", workers=10, timeout=600))
    else:
        run.add_mc("%s MaxIx=3 W={1}" % spec.split("/")[1], tlc(spec, cfg, workers=10, timeout=1800))
    # implementation-shaped model: linked lists / free lists as coded, structural invariants + refinement
    impl = "graph/StableImpl" if stable else "graph/GraphImpl"
    icfg = "MCStableImpl.cfg" if stable else "MCGraphImpl.cfg"
    if stable and not thorough:
        q = open(os.path.join(SPEC, "graph", icfg)).read().replace("MaxIxC = 3", "MaxIxC = 2")
        open(os.path.join(SPEC, "graph", "out_MCStableImpl2.cfg"), "w").write(q)
        run.add_mc("StableImpl => StableAbs MaxIx=2", tlc(impl, "out_MCStableImpl2.cfg", workers=10, timeout=900))
        os.remove(os.path.join(SPEC, "graph", "out_MCStableImpl2.cfg"))
    else:
        run.add_mc("%s => Abs MaxIx=3" % impl.split("/")[1], tlc(impl, icfg, workers=10, timeout=1800))
    st = ["--stable"] if stable else []
    cover_stage(run, prop, stable, (4 if stable else 2) if thorough else (40 if stable else 12), seed)
    drive(run, "random histories", ["mg-random", "--seed", seed, "--segments", 210 if thorough else 56, "--len", 120 if thorough else 70] + st, prop)
    drive(run, "vacancy-stress scenarios (tiny index types)", ["mg-scenarios", "--seed", seed, "--segments", 600 if thorough else 150] + st, prop)
    drive(run, "u8 index limit", ["mg-u8limit", "--seed", seed] + st, prop)
    if thorough or stable:
        # release profile: debug_assert!s are off, silent corruption instead of panics
        build_harness(release=True)
        drive(run, "random histories (release)", ["mg-random", "--seed", seed + 1000, "--segments", 140 if thorough else 28, "--len", 100 if thorough else 60] + st, prop, release=True)
    run.assumptions = [
        "TLC, the Json/IOUtils community modules and the harness recorder (one event per public call; projections through the public API only) are trusted",
        "weights are unique serial numbers, so elements are identified independently of their index",
        "exhaustive model checking of the abstract spec only for MaxIx=3 (tiny index type Ix3), W={1}; beyond that every recorded history was accepted (exploration)",
        "Graph::remove_node is driven only on nodes of degree <= 5 because the spec searches all removal orders",
        "index limits of u16/u32/usize are not reachable; u8 (255) and the tiny index types Ix3/Ix4/Ix7 are driven to and past their limit",
    ]
    return run


def replay_common(prop, path, seed):
    run = Run(prop, "quick", seed)
    build_harness()
    evs = [e for e in read_ndjson(path) if "replay" not in e]
    sp = os.path.join(OUT, "traces", "%s-replay-script.ndjson" % prop)
    tp = os.path.join(OUT, "traces", "%s-replay-trace.ndjson" % prop)
    write_ndjson(sp, evs)
    vh(["mg-exec", "--in", sp, "--out", tp, "--seed", seed])
    out = read_ndjson(tp)
    validate(run, "replay", out, prop)
    return 1 if run.violations else 0
