"""C08: Dfs, Bfs, DfsPostOrder (with move_to / reset continuation), Topo (with reset) and depth_first_search with control scripts (Continue / Prune on Discover, TreeEdge, non-tree edges, Finish / Break), directly and through Reversed, on every encoding; judged by OracleC08.tla which states which emission and event sequences are legal (reachability, hop distances, post-order condition, predecessor order, DFS state machine replay)."""
from props.algocommon import *

MODULE = "algo/OracleC08"

def run(tier, seed):
    run = Run("C08", tier, seed)
    build_harness()
    th = tier == "thorough"
    recs, matrix = sweep(run, "C08", seed, 3, 500 if th else 60, 7 if th else 6)
    run.extra["applicability_matrix"] = matrix
    mid = recs[len(recs) // 2]
    run.sample({k: mid[k] for k in list(mid)[:9]})
    judge(run, "C08", MODULE, recs, "C08 sweep")
    run.assumptions = ["inputs: exhaustive small (multi)graphs with loops up to 3 nodes (sampled above 5000 codes), seeded random shapes up to nmax nodes, both edge types, every encoding x history the trait bounds admit (applicability_matrix)",
                       "TLC evaluating the TLA+ definitions is the oracle; the harness maps node ids back to abstract ids; costs are small integers (floats exact)"]
    return run.finish()

def replay(path, seed):
    return replay_oracle("C08", MODULE, path, seed)
