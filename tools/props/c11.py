"""C11: bellman_ford / spfa / floyd_warshall(_path) / find_negative_cycle judged by OracleC11.tla (MinWalk over bounded walks)."""
from props.algocommon import *

MODULE = "algo/OracleC11"

def run(tier, seed):
    run = Run("C11", tier, seed)
    build_harness()
    th = tier == "thorough"
    # bellman_ford / find_negative_cycle as coded (with the repair 0a08617), every weighted digraph of the bound under
    # every per-node edge order
    d = os.path.join(SPEC, "algo")
    base = open(os.path.join(d, "MCNegCycle.cfg")).read()
    q = base if th else base.replace("MaxEdges = 4", "MaxEdges = 3")
    open(os.path.join(d, "out_MCNegCycle.cfg"), "w").write(q)
    run.add_mc("NegCycle N=3 weights -2..1, at most %d edges" % (4 if th else 3), tlc("algo/NegCycle", "out_MCNegCycle.cfg", workers=10, timeout=2400, tag="c11nc"))
    os.remove(os.path.join(d, "out_MCNegCycle.cfg"))
    recs, matrix = sweep(run, "C11", seed, 3, 2500 if th else 200, 7 if th else 5)
    run.extra["applicability_matrix"] = matrix
    mid = recs[len(recs) // 2]
    run.sample({k: mid[k] for k in list(mid)[:9]})
    judge(run, "C11", MODULE, recs, "C11 sweep")
    run.assumptions = ["inputs: exhaustive small (multi)graphs with loops up to 3 nodes (sampled above 5000 codes), seeded random shapes up to nmax nodes, both edge types, every encoding x history the trait bounds admit (applicability_matrix)",
                       "TLC evaluating the TLA+ definitions is the oracle; the harness maps node ids back to abstract ids; costs are small integers (floats exact)"]
    return run.finish()

def replay(path, seed):
    return replay_oracle("C11", MODULE, path, seed)
