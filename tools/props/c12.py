"""C12: min_spanning_tree (Kruskal stream) / min_spanning_tree_prim judged by OracleC12.tla (minimum over all spanning forests)."""
from props.algocommon import *

MODULE = "algo/OracleC12"

def run(tier, seed):
    run = Run("C12", tier, seed)
    build_harness()
    th = tier == "thorough"
    # Kruskal as coded, with raw indices (vacancies) vs positions in the element stream and every tie order of the heap
    d = os.path.join(SPEC, "algo")
    base = open(os.path.join(d, "MCKruskalIx.cfg")).read()
    open(os.path.join(d, "out_MCKruskalIx.cfg"), "w").write(base.replace("MaxEdges = 4", "MaxEdges = %d" % (6 if th else 4)).replace("MaxW = 2", "MaxW = %d" % (3 if th else 2)))
    run.add_mc("KruskalIx B=4 (index spaces, all tie orders)", tlc("algo/KruskalIx", "out_MCKruskalIx.cfg", workers=10, timeout=2400, tag="c12kx"))
    os.remove(os.path.join(d, "out_MCKruskalIx.cfg"))
    recs, matrix = sweep(run, "C12", seed, 3, 1500 if th else 150, 6 if th else 5)
    run.extra["applicability_matrix"] = matrix
    mid = recs[len(recs) // 2]
    run.sample({k: mid[k] for k in list(mid)[:9]})
    judge(run, "C12", MODULE, recs, "C12 sweep")
    run.assumptions = ["inputs: exhaustive small (multi)graphs with loops up to 3 nodes (sampled above 5000 codes), seeded random shapes up to nmax nodes, both edge types, every encoding x history the trait bounds admit (applicability_matrix)",
                       "TLC evaluating the TLA+ definitions is the oracle; the harness maps node ids back to abstract ids; costs are small integers (floats exact)"]
    return run.finish()

def replay(path, seed):
    return replay_oracle("C12", MODULE, path, seed)
