"""C12: min_spanning_tree (Kruskal stream) / min_spanning_tree_prim judged by OracleC12.tla (minimum over all spanning forests)."""
from props.algocommon import *

MODULE = "algo/OracleC12"

def run(tier, seed):
    run = Run("C12", tier, seed)
    build_harness()
    th = tier == "thorough"
    recs, matrix = sweep(run, "C12", seed, 3, 1500 if th else 150, 6 if th else 5)
    run.extra["applicability_matrix"] = matrix
    mid = recs[len(recs) // 2]
    run.sample({k: mid[k] for k in list(mid)[:9]})
    judge(run, "C12", MODULE, recs, "C12 sweep")
    run.assumptions = ["inputs: exhaustive small (multi)graphs with loops up to 3 nodes (sampled above 5000 codes), seeded random shapes up to nmax nodes, both edge types, every encoding x history the trait bounds admit (applicability_matrix)",
                       "TLC evaluating the TLA+ definitions is the oracle; the harness maps node ids back to abstract ids; costs are small integers (floats exact)"]
    return run.finish()

def replay(path, seed):
    return replay_oracle("C12", MODULE, path, seed)
