"""C04: random histories on the real container validated by TLC against SGAbs.tla (SGTrace.tla)."""
from props.sgcommon import *

def run(tier, seed):
    return run_sg("C04", tier, seed, {"C03": "GraphMap", "C04": "MatrixGraph", "C05": "Csr / adj::List"}["C04"]).finish()

def replay(path, seed):
    return replay_sg("C04", path, seed)
