"""C04: random histories on the real MatrixGraph validated by TLC against SGAbs.tla (SGTrace.tla), plus the
implementation-shaped model of the adjacency-matrix growth (MatrixGrow.tla): model-checked, and every completed
behaviour replayed through the real growth routine (cfg(petgraph_verif) hook)."""
from props.sgcommon import *


def grow_stage(run, thorough):
    cfgdir = os.path.join(SPEC, "simple")
    if thorough:
        for name in ("MatrixGrow.cfg", "MatrixGrowExport.cfg"):
            q = open(os.path.join(cfgdir, name)).read().replace("MaxOld = 6", "MaxOld = 10").replace("MaxReq = 9", "MaxReq = 17")
            open(os.path.join(cfgdir, "out_" + name), "w").write(q)
        mc, ex = "out_MatrixGrow.cfg", "out_MatrixGrowExport.cfg"
    else:
        mc, ex = "MatrixGrow.cfg", "MatrixGrowExport.cfg"
    run.add_mc("MatrixGrow (layout, no loss, termination)", tlc("simple/MatrixGrow", mc, workers=4, timeout=900, tag="c04grow"))
    r = tlc("simple/MatrixGrow", ex, workers=1, timeout=900, tag="c04growx")
    run.add_mc("MatrixGrow export", r)
    calls = [parse_printed_json(l, "GROW")[1] for l in r.printed("GROW")]
    if thorough:
        for name in ("out_MatrixGrow.cfg", "out_MatrixGrowExport.cfg"):
            os.remove(os.path.join(cfgdir, name))
    if not calls:
        raise ToolError("MatrixGrow export printed no behaviours")
    inp = os.path.join(OUT, "traces", "C04-grow-in.ndjson")
    outp = os.path.join(OUT, "traces", "C04-grow-out.ndjson")
    write_ndjson(inp, calls)
    res, died = vh_records(["mx-grow", "--in", inp], outp)
    if died:
        i = died["during"].get("i", len(res))
        c = calls[min(i, len(calls) - 1)]["call"]
        run.violation({"kind": "crash", "exec": "mx-grow", "rc": died["rc"], "old": c["old"], "req": c["req"], "exact": c["exact"], "directed": c["directed"]}, [calls[min(i, len(calls) - 1)]], header={"exec": "mx-grow"})
        calls = calls[:len(res)]
    elif len(res) != len(calls):
        raise ToolError("mx-grow answered %d of %d calls" % (len(res), len(calls)))
    bad = [x for x in res if not x["ok"]]
    run.traces += len(res) - len(bad)
    run.extra["matrix_grow_calls_replayed"] = len(res)
    log("[grow] %d behaviours of MatrixGrow replayed through the real routine, %d differ" % (len(res), len(bad)))
    for x in bad[:5]:
        c = x["call"]
        run.violation({"kind": "matrix_grow", "old": c["old"], "req": c["req"], "exact": c["exact"], "directed": c["directed"], "panic": bool(x.get("panic"))},
                      [dict(calls[x["i"]], got=x.get("arr"), got_new=x.get("new"))], header={"exec": "mx-grow"})
    for f in (inp, outp, outp + ".cur"):
        if os.path.exists(f):
            os.remove(f)


def ids_stage(run, thorough):
    """MatrixImpl.tla: id bookkeeping (upper bound, LIFO reuse, the IdIterator loop) and the cleaning of the matrix on
    removal; model-checked, then every exported state history replayed on the real MatrixGraph."""
    d = os.path.join(SPEC, "simple")
    base = open(os.path.join(d, "MCMatrixImpl.cfg")).read()
    tmp = os.path.join(d, "out_MCMatrixImpl.cfg")
    scripts = []
    for directed in (True, False):
        name = "directed" if directed else "undirected"
        ids, ops = (4, 11 if thorough else 9) if directed else (4, 12 if thorough else 10)
        q = base.replace("MaxId = 3", "MaxId = %d" % ids).replace("MaxOps = 8", "MaxOps = %d" % ops).replace("Directed = TRUE", "Directed = %s" % ("TRUE" if directed else "FALSE"))
        open(tmp, "w").write(q)
        run.add_mc("MatrixImpl %s %d ids, %d calls" % (name, ids, ops), tlc("simple/MatrixImpl", "out_MCMatrixImpl.cfg", workers=8, timeout=1800, tag="c04ids"))
        q = base.replace("MaxOps = 8", "MaxOps = %d" % (10 if thorough else 8)).replace("Directed = TRUE", "Directed = %s" % ("TRUE" if directed else "FALSE")).replace("INVARIANT Inv", "INVARIANT Inv Export")
        open(tmp, "w").write(q)
        r = tlc("simple/MatrixImpl", "out_MCMatrixImpl.cfg", workers=1, timeout=1800, tag="c04idsx")
        run.add_mc("MatrixImpl export", r)
        scripts += [parse_printed_json(l, "MXI")[1] for l in r.printed("MXI")]
    os.remove(tmp)
    if not scripts:
        raise ToolError("MatrixImpl export printed nothing")
    inp = os.path.join(OUT, "traces", "C04-ids-in.ndjson")
    outp = os.path.join(OUT, "traces", "C04-ids-out.ndjson")
    write_ndjson(inp, scripts)
    res, died = vh_records(["mxi-replay", "--in", inp], outp)
    if died:
        i = died["during"].get("i", len(res))
        run.violation({"kind": "crash", "exec": "mxi-replay", "rc": died["rc"], "calls": len(scripts[i]["hist"]) if i < len(scripts) else -1}, [scripts[min(i, len(scripts) - 1)]], header={"exec": "mxi-replay"})
        scripts = scripts[:len(res)]
    elif len(res) != len(scripts):
        raise ToolError("mxi-replay answered %d of %d" % (len(res), len(scripts)))
    bad = [x for x in res if not x["ok"]]
    run.traces += len(res) - len(bad)
    run.extra["matriximpl_histories_replayed"] = len(res)
    run.extra["matriximpl_id_choice_agreement"] = "%d of %d histories were followed to the end with the ids the model predicts (informational: C04 does not promise which free id is reused)" % (len([x for x in res if x["followed"]]), len(res))
    log("[ids] %d MatrixImpl histories replayed, %d differ; %s" % (len(res), len(bad), run.extra["matriximpl_id_choice_agreement"]))
    for x in bad[:5]:
        sc = scripts[x["i"]]
        run.violation({"kind": "matrix_impl", "directed": sc["directed"], "calls": len(sc["hist"]), "first_diff": (x["diffs"] or ["?"])[0][:80]},
                      [dict(sc, diffs=x["diffs"])], header={"exec": "mxi-replay"})
    for f in (inp, outp, outp + ".cur"):
        if os.path.exists(f):
            os.remove(f)


def run(tier, seed):
    r = run_sg("C04", tier, seed, "MatrixGraph")
    grow_stage(r, tier == "thorough")
    ids_stage(r, tier == "thorough")
    r.assumptions.append("MatrixGrow.tla: exhaustive for old capacities 0..%s and requests up to %s with a fully populated matrix; the model's final Vec equals the real routine's for every such call" % (("10", "17") if tier == "thorough" else ("6", "9")))
    return r.finish()


def replay(path, seed):
    evs = read_ndjson(path)
    if evs and evs[0].get("replay", {}).get("exec") == "mx-grow":
        run_ = Run("C04", "quick", seed)
        build_harness()
        calls = [e for e in evs if "replay" not in e]
        inp = os.path.join(OUT, "traces", "C04-grow-rp.ndjson")
        write_ndjson(inp, calls)
        vh(["mx-grow", "--in", inp, "--out", inp + ".out"])
        res = read_ndjson(inp + ".out")
        for x in res:
            if not x["ok"]:
                run_.violation({"kind": "matrix_grow", "call": x["call"]}, [calls[x["i"]]], header={"exec": "mx-grow"})
        return 1 if run_.violations else 0
    if evs and evs[0].get("replay", {}).get("exec") == "mxi-replay":
        run_ = Run("C04", "quick", seed)
        build_harness()
        scripts = [e for e in evs if "replay" not in e]
        inp = os.path.join(OUT, "traces", "C04-ids-rp.ndjson")
        write_ndjson(inp, scripts)
        vh(["mxi-replay", "--in", inp, "--out", inp + ".out"])
        for x in read_ndjson(inp + ".out"):
            if not x["ok"]:
                run_.violation({"kind": "matrix_impl", "first_diff": (x["diffs"] or ["?"])[0][:80]}, [scripts[x["i"]]], header={"exec": "mxi-replay"})
        return 1 if run_.violations else 0
    return replay_sg("C04", path, seed)
