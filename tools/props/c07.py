"""C07: generic algorithms depend only on the abstract graph.  The cross product driver: every algorithm
of C09-C13, C15, C16, C20 (and the walkers of C08) is run on EVERY encoding (Graph, StableGraph,
MatrixGraph, GraphMap, Csr, adj::List) x history (fresh, shuffled, garbage-then-remove = vacant indices /
swap renumbering) of the same abstract graph, and each run is judged by the algorithm's TLA+ oracle:
equal where the answer is unique, equally valid and optimal where it is not; a panic / hang / out-of-bounds
on one encoding is a rejection.  The applicability matrix (algorithm x encoding) is evidence."""
from props.algocommon import *

ORACLES = ["C08", "C09", "C10", "C11", "C12", "C15", "C16", "C20"]

def run(tier, seed):
    run = Run("C07", tier, seed)
    build_harness()
    th = tier == "thorough"
    merged = {}
    for k, p in enumerate(ORACLES):
        recs, matrix = sweep(run, p, seed * 31 + 7 + k, 2, 300 if th else 60, 6 if th else 5)
        for a, c in matrix.items():
            merged[a] = merged.get(a, 0) + c
        if k == 0:
            mid = recs[len(recs) // 2]
            run.sample({x: mid[x] for x in list(mid)[:8]})
        # every record of the same abstract graph must be accepted by the same oracle: that is the
        # representation-independence statement, record by record
        res = run_oracle("algo/Oracle%s" % p, recs, "c07or")
        run.states += res["states"]; run.transitions += res["transitions"]; run.traces += res["judged"] - len(res["rejects"])
        log("[oracle] C07 via %s            records=%d rejected=%d tlc=%.1fs" % (p, res["judged"], len(res["rejects"]), res["tlc_wall"]))
        for rec, bad in res["rejects"]:
            for f in bad:
                sig = {"kind": "oracle", "prop": p, "algo": f, "enc": rec.get("enc"), "hist": rec.get("hist"), "dir": rec.get("dir"),
                       "out_tag": (rec.get(f) or rec.get(f.split("_")[0]) or [None])[0], "n": rec.get("n"), "m": len(rec.get("E", []))}
                run.violation(sig, [rec], header={"exec": "oracle", "spec": "algo/Oracle%s" % p, "bad_fields": bad})
    run.extra["applicability_matrix"] = merged
    run.extra["cells"] = len(merged)
    run.assumptions = ["the oracles of the individual properties are the judges (see their evidence); C07 adds the cross product over encodings and histories with its own seeds",
                       "Csr/MatrixGraph/GraphMap only for simple inputs, adj::List only for directed inputs (the types cannot hold anything else)"]
    return run.finish()

def replay(path, seed):
    L = read_ndjson(path)
    spec = L[0]["replay"]["spec"]
    prop = spec.split("Oracle")[1]
    r = Run("C07", "quick", seed)
    build_harness()
    rec = [e for e in L if "replay" not in e][0]
    ip = os.path.join(OUT, "traces", "C07-replay-in.ndjson"); tp = os.path.join(OUT, "traces", "C07-replay-out.ndjson")
    write_ndjson(ip, [{"n": rec["n"], "dir": rec["dir"], "E": rec["E"]}])
    vh(["algo-replay", "--prop", prop, "--in", ip, "--out", tp, "--seed", seed])
    judge(r, "C07", spec, read_ndjson(tp), "replay")
    return 1 if r.violations else 0
