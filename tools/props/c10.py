"""C10: dijkstra / astar / k_shortest_path judged by OracleC10.tla (shortest walks by definition, k-th walk by counting)."""
from props.algocommon import *

MODULE = "algo/OracleC10"

def run(tier, seed):
    run = Run("C10", tier, seed)
    build_harness()
    th = tier == "thorough"
    recs, matrix = sweep(run, "C10", seed, 3, 500 if th else 60, 6 if th else 5)
    run.extra["applicability_matrix"] = matrix
    mid = recs[len(recs) // 2]
    run.sample({k: mid[k] for k in list(mid)[:9]})
    judge(run, "C10", MODULE, recs, "C10 sweep")
    run.assumptions = ["inputs: exhaustive small (multi)graphs with loops up to 3 nodes (sampled above 5000 codes), seeded random shapes up to nmax nodes, both edge types, every encoding x history the trait bounds admit (applicability_matrix)",
                       "TLC evaluating the TLA+ definitions is the oracle; the harness maps node ids back to abstract ids; costs are small integers (floats exact)"]
    return run.finish()

def replay(path, seed):
    return replay_oracle("C10", MODULE, path, seed)
