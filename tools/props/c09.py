"""C09: SCC / connectivity / cycles / toposort / condensation, judged by OracleC09.tla (definitions in
GraphTheory.tla) on every encoding x history of exhaustive small graphs and seeded random shapes."""
from props.algocommon import *

MODULE = "algo/OracleC09"

def run(tier, seed):
    run = Run("C09", tier, seed)
    build_harness()
    th = tier == "thorough"
    # TarjanScc as coded (Pearce's variant): every digraph of the bound, every successor order
    d = os.path.join(SPEC, "algo")
    base = open(os.path.join(d, "MCTarjanPearce.cfg")).read()
    run.add_mc("TarjanPearce N=3 with loops (termination)", tlc("algo/TarjanPearce", "MCTarjanPearce.cfg", workers=6, timeout=900, tag="c09tp3"))
    open(os.path.join(d, "out_MCTarjanPearce.cfg"), "w").write(base.replace("N = 3", "N = 4").replace("Loops = TRUE", "Loops = %s" % ("TRUE" if th else "FALSE")).replace("PROPERTY Terminates\n", "").replace("FairSpec", "Spec"))
    run.add_mc("TarjanPearce N=4 %s" % ("with loops" if th else "without loops"), tlc("algo/TarjanPearce", "out_MCTarjanPearce.cfg", workers=10, timeout=2400, tag="c09tp4"))
    os.remove(os.path.join(d, "out_MCTarjanPearce.cfg"))
    recs, matrix = sweep(run, "C09", seed, 3, 400 if th else 60, 7 if th else 6)
    run.extra["applicability_matrix"] = matrix
    run.sample({k: recs[len(recs) // 2][k] for k in ("enc", "hist", "n", "dir", "E", "kos", "topo") if k in recs[len(recs) // 2]})
    judge(run, "C09", MODULE, recs, "C09 sweep")
    run.assumptions = ["graphs: all (multi)graphs on <=2 nodes, all simple graphs with loops on 3 nodes, seeded random shapes up to nmax nodes; both edge types",
                       "TLC + GraphTheory.tla definitions are the oracle; the harness maps node ids back to abstract ids"]
    return run.finish()

def replay(path, seed):
    return replay_oracle("C09", MODULE, path, seed)
