"""C15: greedy_matching / maximum_matching (valid; maximum over all matchings) and ford_fulkerson (feasible, value = min cut) judged by OracleC15.tla."""
from props.algocommon import *

MODULE = "algo/OracleC15"

def run(tier, seed):
    run = Run("C15", tier, seed)
    build_harness()
    th = tier == "thorough"
    recs, matrix = sweep(run, "C15", seed, 3, 1500 if th else 300, 7 if th else 6)
    run.extra["applicability_matrix"] = matrix
    mid = recs[len(recs) // 2]
    run.sample({k: mid[k] for k in list(mid)[:9]})
    judge(run, "C15", MODULE, recs, "C15 sweep")
    run.assumptions = ["inputs: exhaustive small (multi)graphs with loops up to 3 nodes (sampled above 5000 codes), seeded random shapes up to nmax nodes, both edge types, every encoding x history the trait bounds admit (applicability_matrix)",
                       "TLC evaluating the TLA+ definitions is the oracle; the harness maps node ids back to abstract ids; costs are small integers (floats exact)"]
    return run.finish()

def replay(path, seed):
    return replay_oracle("C15", MODULE, path, seed)
