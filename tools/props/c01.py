"""C01 Graph: GraphAbs model-checked by TLC; random / index-limit histories on the real Graph
(both edge types, Ix3/Ix4/Ix7/u8/u16/u32/usize) validated by TLC against GraphAbs (MGTrace)."""
from props.mgcommon import *

def run(tier, seed):
    r = run_common("C01", False, tier, seed)
    return r.finish()

def replay(path, seed):
    return replay_common("C01", path, seed)
