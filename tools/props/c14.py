"""C14 Acyclic<DiGraph> / Acyclic<StableDiGraph>: histories (wrap possibly-cyclic graphs, add nodes and edges
forward/backward/self/cycle-closing through try_add_edge, try_update_edge and Build, remove edges and nodes
incl. non-last DiGraph nodes, absent and repeated removals, unwrap/mutate/re-wrap) recorded on the real code
and validated by TLC against GraphAbs/StableAbs + the Acyclic actions of MGTrace.tla: rejected exactly for
self-loops and cycle-closing edges (reachability closure), rejected calls change nothing, the logged order
(nodes_iter) is a valid topological order of exactly the live nodes after every call, is_valid_edge, range,
get_position/at_position consistent, invariant 'no directed cycle while wrapped' in every state."""
from props.mgcommon import *

def run(tier, seed):
    run = Run("C14", tier, seed)
    build_harness()
    th = tier == "thorough"
    for rel in ([False, True] if th else [False]):
        if rel:
            build_harness(release=True)
        tp = os.path.join(OUT, "traces", "C14-ac.ndjson")
        evs = vh_trace(["mg-acyclic", "--seed", seed + (77 if rel else 0), "--segments", 400 if th else 90, "--len", 90 if th else 60], tp, release=rel)
        run.sample({"events": [{k: v for k, v in e.items() if k not in ("per", "pairs", "eq", "st")} for e in evs[5:10]]})
        validate(run, "acyclic histories (%s)" % ("release" if rel else "debug"), evs, "C14")
    run.assumptions = ["TLC + Json module and the harness recorder are trusted; topological positions are opaque, so their consistency with nodes_iter (strictly increasing, at_position inverse, range sub-sequences) is computed by the harness through the public API and asserted by the spec",
                       "which valid topological order is kept is not specified (any valid order is accepted)",
                       "graphs up to ~8 nodes / 14 edges per segment; index types u8, u32 and the tiny Ix7"]
    return run.finish()

def replay(path, seed):
    return replay_common("C14", path, seed)
