"""C14 Acyclic<DiGraph> / Acyclic<StableDiGraph>: histories (wrap possibly-cyclic graphs, add nodes and edges
forward/backward/self/cycle-closing through try_add_edge, try_update_edge and Build, remove edges and nodes
incl. non-last DiGraph nodes, absent and repeated removals, unwrap/mutate/re-wrap) recorded on the real code
and validated by TLC against GraphAbs/StableAbs + the Acyclic actions of MGTrace.tla: rejected exactly for
self-loops and cycle-closing edges (reachability closure), rejected calls change nothing, the logged order
(nodes_iter) is a valid topological order of exactly the live nodes after every call, is_valid_edge, range,
get_position/at_position consistent, invariant 'no directed cycle while wrapped' in every state."""
from props.mgcommon import *

def pk_stage(run, th, seed):
    """AcyclicPK.tla: the order-maintenance algorithm as coded, model-checked (valid order, injective positions, no
    assertion can fire, refusal iff self-loop or cycle, refusal changes nothing) for both inner graph types; then one
    history per distinct model state is replayed on the real wrapper with every call forked from it."""
    d = os.path.join(SPEC, "graph")
    base = open(os.path.join(d, "MCAcyclicPK.cfg")).read()
    scripts = []
    for compact in (False, True):
        n, ops = (4, 14)
        q = base.replace("MaxN = 4", "MaxN = %d" % n).replace("MaxOps = 7", "MaxOps = %d" % ops).replace("Compact = FALSE", "Compact = %s" % ("TRUE" if compact else "FALSE"))
        open(os.path.join(d, "out_MCAcyclicPK.cfg"), "w").write(q)
        run.add_mc("AcyclicPK %s N=%d" % ("DiGraph" if compact else "StableDiGraph", n), tlc("graph/AcyclicPK", "out_MCAcyclicPK.cfg", workers=8, timeout=1800, tag="c14pk"))
        open(os.path.join(d, "out_MCAcyclicPK.cfg"), "w").write(q.replace("INVARIANT Inv", "INVARIANT Inv Export").replace("PROPERTY Verdict\n", ""))
        r = tlc("graph/AcyclicPK", "out_MCAcyclicPK.cfg", workers=1, timeout=1800, tag="c14pkx")
        run.add_mc("AcyclicPK export", r)
        scripts += [parse_printed_json(l, "PATH")[1] for l in r.printed("PATH")]
    if th:
        # the five-node model (about 400 k states): design check only, no replay
        q = base.replace("MaxN = 4", "MaxN = 5").replace("MaxOps = 7", "MaxOps = 18")
        open(os.path.join(d, "out_MCAcyclicPK.cfg"), "w").write(q)
        run.add_mc("AcyclicPK StableDiGraph N=5", tlc("graph/AcyclicPK", "out_MCAcyclicPK.cfg", workers=12, timeout=3000, tag="c14pk5"))
    os.remove(os.path.join(d, "out_MCAcyclicPK.cfg"))
    if not scripts:
        raise ToolError("AcyclicPK export printed no histories")
    stride = 3 if th else 24
    sp = os.path.join(OUT, "traces", "C14-pk-scripts.ndjson")
    write_ndjson(sp, scripts)
    tp = os.path.join(OUT, "traces", "C14-pk.ndjson")
    evs = vh_trace(["mg-accover", "--in", sp, "--stride", stride, "--offset", seed % stride, "--seed", seed], tp, timeout=1200)
    os.remove(sp)
    saves = [e for e in evs if e.get("op") == "save"]
    run.extra["pk_model_states"] = len(scripts)
    run.extra["pk_states_replayed"] = len(saves)
    run.extra["pk_forked_calls"] = len([e for e in evs if e.get("op") == "restore"])
    run.extra["pk_order_agreement"] = "%d of %d replayed states have exactly the order AcyclicPK.tla predicts (informational: C14 accepts any valid order)" % (len([e for e in saves if e.get("pk_agree")]), len(saves))
    log("[pk] " + run.extra["pk_order_agreement"])
    run.sample({"pk_history": scripts[len(scripts) // 2]})
    validate(run, "AcyclicPK state cover + fan-out (stride %d)" % stride, evs, "C14", chunk=6000, parallel=12)


def run(tier, seed):
    run = Run("C14", tier, seed)
    build_harness()
    th = tier == "thorough"
    pk_stage(run, th, seed)
    for rel in ([False, True] if th else [False]):
        if rel:
            build_harness(release=True)
        tp = os.path.join(OUT, "traces", "C14-ac.ndjson")
        evs = vh_trace(["mg-acyclic", "--seed", seed + (77 if rel else 0), "--segments", 400 if th else 90, "--len", 90 if th else 60], tp, release=rel)
        run.sample({"events": [{k: v for k, v in e.items() if k not in ("per", "pairs", "eq", "st")} for e in evs[5:10]]})
        validate(run, "acyclic histories (%s)" % ("release" if rel else "debug"), evs, "C14")
    run.assumptions = ["TLC + Json module and the harness recorder are trusted; topological positions are opaque, so their consistency with nodes_iter (strictly increasing, at_position inverse, range sub-sequences) is computed by the harness through the public API and asserted by the spec",
                       "which valid topological order is kept is not specified (any valid order is accepted)",
                       "graphs up to ~8 nodes / 14 edges per segment; index types u8, u32 and the tiny Ix7"]
    return run.finish()

def replay(path, seed):
    return replay_common("C14", path, seed)
