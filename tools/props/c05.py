"""C05: random histories on the real Csr / adj::List validated by TLC against SGAbs.tla (SGTrace.tla), plus the
implementation-shaped model of the Csr arrays (CsrImpl.tla): model-checked with a scaled-down binary-search cutoff,
simulated with the real cutoff, and every exported behaviour replayed on the real Csr."""
from props.sgcommon import *


def csr_stage(run, thorough, seed):
    d = os.path.join(SPEC, "simple")
    base = open(os.path.join(d, "MCCsrImpl.cfg")).read()
    scripts = []
    tmp = os.path.join(d, "out_MCCsrImpl.cfg")
    for directed in (True, False):
        n, ops = (3, 13) if directed else ((4, 15) if thorough else (3, 10))
        q = base.replace("MaxN = 3", "MaxN = %d" % n).replace("MaxOps = 9", "MaxOps = %d" % ops).replace("Directed = TRUE", "Directed = %s" % ("TRUE" if directed else "FALSE"))
        open(tmp, "w").write(q)
        run.add_mc("CsrImpl %s N=%d cutoff=2" % ("directed" if directed else "undirected", n), tlc("simple/CsrImpl", "out_MCCsrImpl.cfg", workers=8, timeout=1800, tag="c05csr"))
        open(tmp, "w").write(q.replace("INVARIANT Inv", "INVARIANT Inv Export").replace("PROPERTY Verdict\n", ""))
        r = tlc("simple/CsrImpl", "out_MCCsrImpl.cfg", workers=1, timeout=1800, tag="c05csrx")
        run.add_mc("CsrImpl export", r)
        scripts += [parse_printed_json(l, "CSR")[1] for l in r.printed("CSR")]
    if thorough:
        q = base.replace("MaxN = 3", "MaxN = 4").replace("MaxOps = 9", "MaxOps = 12").replace("PROPERTY Verdict\n", "")
        open(tmp, "w").write(q)
        run.add_mc("CsrImpl directed N=4 (12 calls)", tlc("simple/CsrImpl", "out_MCCsrImpl.cfg", workers=10, timeout=3000, tag="c05csr4"))
    os.remove(tmp)
    nmc = len(scripts)
    # simulation with the real cutoff (32): hub rows grow through it; one exported behaviour per simulated run
    sim = open(os.path.join(d, "SimCsrImpl.cfg")).read()
    for directed in (True, False):
        open(tmp, "w").write(sim.replace("Directed = TRUE", "Directed = %s" % ("TRUE" if directed else "FALSE")))
        r = tlc("simple/CsrImpl", "out_MCCsrImpl.cfg", workers=1, timeout=1800, tag="c05sim",
                extra=["-simulate", "num=%d" % (60 if thorough else 8), "-depth", "261", "-seed", str(seed + 11)])
        if r.errors:
            run.add_mc("CsrImpl simulation", r)
        scripts += [parse_printed_json(l, "CSR")[1] for l in r.printed("CSR")]
    os.remove(tmp)
    if len(scripts) == nmc:
        raise ToolError("CsrImpl simulation exported nothing")
    inp = os.path.join(OUT, "traces", "C05-csr-in.ndjson")
    outp = os.path.join(OUT, "traces", "C05-csr-out.ndjson")
    write_ndjson(inp, scripts)
    res, died = vh_records(["csr-replay", "--in", inp], outp)
    if died:
        i = died["during"].get("i", len(res))
        run.violation({"kind": "crash", "exec": "csr-replay", "rc": died["rc"], "calls": len(scripts[i]["hist"]) if i < len(scripts) else -1}, [scripts[min(i, len(scripts) - 1)]], header={"exec": "csr-replay"})
        scripts = scripts[:len(res)]
    elif len(res) != len(scripts):
        raise ToolError("csr-replay answered %d of %d" % (len(res), len(scripts)))
    bad = [x for x in res if not x["ok"]]
    run.traces += len(res) - len(bad)
    run.extra["csrimpl_behaviours_replayed"] = {"exhaustive_states": nmc, "simulated_cutoff32": len(scripts) - nmc}
    log("[csr] %d CsrImpl behaviours (%d simulated with cutoff 32) replayed on the real Csr, %d differ" % (len(res), len(scripts) - nmc, len(bad)))
    for x in bad[:5]:
        sc = scripts[x["i"]]
        run.violation({"kind": "csr_impl", "directed": sc["directed"], "calls": len(sc["hist"]), "first_diff": (x["diffs"] or ["?"])[0][:80]},
                      [dict(sc, diffs=x["diffs"])], header={"exec": "csr-replay"})
    for f in (inp, outp, outp + ".cur"):
        if os.path.exists(f):
            os.remove(f)


def run(tier, seed):
    r = run_sg("C05", tier, seed, "Csr / adj::List")
    csr_stage(r, tier == "thorough", seed)
    r.assumptions.append("CsrImpl.tla: exhaustive for 3 nodes (4 undirected in the thorough tier) with cutoff 2; simulations with 40 nodes and the real cutoff 32; the model's arrays equal neighbors_slice / edges_slice / edge_count of the real Csr after every exported behaviour")
    return r.finish()


def replay(path, seed):
    evs = read_ndjson(path)
    if evs and evs[0].get("replay", {}).get("exec") == "csr-replay":
        run_ = Run("C05", "quick", seed)
        build_harness()
        scripts = [e for e in evs if "replay" not in e]
        inp = os.path.join(OUT, "traces", "C05-csr-rp.ndjson")
        write_ndjson(inp, scripts)
        vh(["csr-replay", "--in", inp, "--out", inp + ".out"])
        for x in read_ndjson(inp + ".out"):
            if not x["ok"]:
                run_.violation({"kind": "csr_impl", "first_diff": (x["diffs"] or ["?"])[0][:80]}, [scripts[x["i"]]], header={"exec": "csr-replay"})
        return 1 if run_.violations else 0
    return replay_sg("C05", path, seed)
