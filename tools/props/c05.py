"""C05: random histories on the real container validated by TLC against SGAbs.tla (SGTrace.tla)."""
from props.sgcommon import *

def run(tier, seed):
    return run_sg("C05", tier, seed, {"C03": "GraphMap", "C04": "MatrixGraph", "C05": "Csr / adj::List"}["C05"]).finish()

def replay(path, seed):
    return replay_sg("C05", path, seed)
