"""Shared by the oracle-judged properties (R3): sweep -> records -> TLA+ oracle."""
import json, os, re
from vlib import *


def sweep(run, prop, seed, exh, random, nmax, release=False, extra=None):
    tp = os.path.join(OUT, "traces", "%s-sweep-%d.ndjson" % (prop, seed))
    r = vh(["algo-sweep", "--prop", prop, "--seed", seed, "--exh", exh, "--random", random, "--nmax", nmax, "--out", tp] + (extra or []), release=release, timeout=3600)
    m = re.search(r"MATRIX (\{.*\})", r.stderr)
    matrix = json.loads(m.group(1)) if m else {}
    recs = read_ndjson(tp)
    os.remove(tp)
    return recs, matrix


def judge(run, prop, module, recs, name, fields_of_interest=None):
    res = run_oracle(module, recs, prop.lower() + "or")
    run.states += res["states"]
    run.transitions += res["transitions"]
    run.traces += res["judged"] - len(res["rejects"])
    log("[oracle] %-24s records=%d rejected=%d tlc=%.1fs" % (name, res["judged"], len(res["rejects"]), res["tlc_wall"]))
    for rec, bad in res["rejects"]:
        for f in bad:
            sig = {"kind": "oracle", "prop": prop, "algo": f, "enc": rec.get("enc"), "hist": rec.get("hist"), "dir": rec.get("dir"),
                   "out_tag": (rec.get(f) or rec.get(f.split("_")[0]) or [None])[0],
                   "n": rec.get("n"), "m": len(rec.get("E", []))}
            run.violation(sig, [rec], header={"exec": "oracle", "spec": module, "bad_fields": bad})
    return res


def replay_oracle(prop, module, path, seed):
    """Re-run the recorded input through the real code (same encoding family) and judge again."""
    run = Run(prop, "quick", seed)
    build_harness()
    L = read_ndjson(path)
    rec = [e for e in L if "replay" not in e][0]
    ip = os.path.join(OUT, "traces", "%s-replay-in.ndjson" % prop)
    tp = os.path.join(OUT, "traces", "%s-replay-out.ndjson" % prop)
    write_ndjson(ip, [{"n": rec["n"], "dir": rec["dir"], "E": rec["E"], "args": rec.get("args", {})}])
    vh(["algo-replay", "--prop", prop, "--in", ip, "--out", tp, "--seed", seed])
    recs = read_ndjson(tp)
    judge(run, prop, module, recs, "replay")
    return 1 if run.violations else 0
