"""Shared by the oracle-judged properties (R3): sweep -> records -> TLA+ oracle."""
import json, os, re
from vlib import *


def sweep(run, prop, seed, exh, random, nmax, release=False, extra=None):
    tp = os.path.join(OUT, "traces", "%s-sweep-%d.ndjson" % (prop, seed))
    r = vh(["algo-sweep", "--prop", prop, "--seed", seed, "--exh", exh, "--random", random, "--nmax", nmax, "--out", tp] + (extra or []),
           release=release, timeout=2400 if run.tier == "thorough" else 900, check=False)
    m = re.search(r"MATRIX (\{.*\})", r.stderr or "")
    matrix = json.loads(m.group(1)) if m else {}
    recs = []
    if os.path.exists(tp):
        for l in open(tp):
            try:
                recs.append(json.loads(l))
            except Exception:
                break     # torn last line
        os.remove(tp)
    cur = tp + ".cur"
    during = None
    if os.path.exists(cur):
        try:
            during = json.load(open(cur))
        except Exception:
            during = None
        os.remove(cur)
    if r.returncode != 0:
        # the code under test killed the harness (abort, stack overflow, out of memory) or never returned: a violation
        # located at the input that was being processed, not a tool error
        if during is None and not recs:
            raise ToolError("harness algo-sweep failed rc=%s before processing any input: %s" % (r.returncode, (r.stderr or "")[-1500:]))
        g = during or {"prop": prop, "n": -1, "dir": None, "E": []}
        log("[harness] algo-sweep died rc=%s while processing %s" % (r.returncode, json.dumps(g)[:200]))
        run.violation({"kind": "crash", "prop": prop, "rc": r.returncode if r.returncode > -99 else "timeout", "n": g.get("n"), "m": len(g.get("E", [])), "dir": g.get("dir")},
                      [dict(g, crashed=True)], header={"exec": "algo-sweep"})
    return recs, matrix


def judge(run, prop, module, recs, name, fields_of_interest=None):
    res = run_oracle(module, recs, prop.lower() + "or")
    run.states += res["states"]
    run.transitions += res["transitions"]
    run.traces += res["judged"] - len(res["rejects"])
    log("[oracle] %-24s records=%d rejected=%d tlc=%.1fs" % (name, res["judged"], len(res["rejects"]), res["tlc_wall"]))
    for rec, bad in res["rejects"]:
        for f in bad:
            sig = {"kind": "oracle", "prop": prop, "algo": f, "enc": rec.get("enc"), "hist": rec.get("hist"), "dir": rec.get("dir"),
                   "out_tag": (rec.get(f) or rec.get(f.split("_")[0]) or [None])[0],
                   "n": rec.get("n"), "m": len(rec.get("E", []))}
            run.violation(sig, [rec], header={"exec": "oracle", "spec": module, "bad_fields": bad})
    return res


def replay_oracle(prop, module, path, seed):
    """Re-run the recorded input through the real code (same encoding family) and judge again."""
    run = Run(prop, "quick", seed)
    build_harness()
    L = read_ndjson(path)
    rec = [e for e in L if "replay" not in e][0]
    ip = os.path.join(OUT, "traces", "%s-replay-in.ndjson" % prop)
    tp = os.path.join(OUT, "traces", "%s-replay-out.ndjson" % prop)
    write_ndjson(ip, [{"n": rec["n"], "dir": rec["dir"], "E": rec["E"], "args": rec.get("args", {})}])
    r = vh(["algo-replay", "--prop", prop, "--in", ip, "--out", tp, "--seed", seed], check=False, timeout=900)
    if r.returncode != 0:
        # the recorded input kills / hangs the harness again
        run.violation({"kind": "crash", "prop": prop, "rc": r.returncode if r.returncode > -99 else "timeout", "n": rec.get("n"), "m": len(rec.get("E", []))},
                      [rec], header={"exec": "algo-sweep"})
        return 1
    recs = read_ndjson(tp)
    judge(run, prop, module, recs, "replay")
    return 1 if run.violations else 0
