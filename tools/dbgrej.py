#!/usr/bin/env python3
"""dbgrej.py <replay.ndjson> [exec-cmd] : re-execute a replay script, then show the spec state TLC reached
just before the rejected line (MGTrace only)."""
import json, os, re, subprocess, sys
sys.path.insert(0, os.path.dirname(os.path.abspath(__file__)))
from vlib import *
p = sys.argv[1]
L = read_ndjson(p)
hdr = L[0]["replay"]; evs = L[1:]
execcmd = hdr.get("exec", "mg-exec")
sp = os.path.join(OUT, "traces", "dbg-script.ndjson"); tp = os.path.join(OUT, "traces", "dbg-trace.ndjson")
write_ndjson(sp, evs)
vh([execcmd, "--in", sp, "--out", tp])
out = read_ndjson(tp)
specdir = os.path.dirname(os.path.join(SPEC, hdr["spec"])); mod = os.path.basename(hdr["spec"])
at = int(sys.argv[2]) if len(sys.argv) > 2 else hdr["rejected_index"] + 1
cfg = open(os.path.join(specdir, mod + ".cfg")).read().replace("DbgAt = 0", "DbgAt = %d" % at)
open(os.path.join(specdir, "out_dbg.cfg"), "w").write(cfg)
r = tlc(hdr["spec"], "out_dbg.cfg", workers=1, env={"TRACE": tp}, deque=True, tag="dbg")
os.remove(os.path.join(specdir, "out_dbg.cfg"))
txt = r.out
i = txt.rfind("State ")
print(txt[i:i + 3000] if i >= 0 else txt[-3000:])
print("---- event at line", at)
if at - 1 < len(out):
    e = dict(out[at - 1])
    for k in ("per", "pairs", "eq"):
        if k in e: e[k] = "<%d>" % len(e[k])
    print(json.dumps(e)[:1500])
