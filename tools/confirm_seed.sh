#!/bin/bash
# confirm_seed.sh <prop> <k> : in scratch worktree /tmp/wt-<prop>, confirm that seed <k>
#  (1) demo passes on clean tree, (2) patched tree passes full suite, (3) demo fails on patched tree.
# Writes /tmp/seeds/<prop>/<k>/confirm.json
P=$1; K=$2; WT=/tmp/wt-$P; S=${SEEDS:-/tmp/seeds}/$P/$K
cd $WT || exit 2
git checkout -q -- . ; rm -f tests/seed_demo.rs
FEAT=""
grep -qi "serde-1" $S/notes.md 2>/dev/null && grep -q "serde" $S/demo.rs && FEAT="--features serde-1"
cp $S/demo.rs tests/seed_demo.rs
cargo test -j 6 --offline $FEAT --test seed_demo > $S/c_clean_demo.log 2>&1; R1=$?
git apply $S/patch.diff || { echo "{\"apply\":false}" > $S/confirm.json; exit 1; }
cargo test -j 6 --offline $FEAT --test seed_demo > $S/c_patched_demo.log 2>&1; R3=$?
rm -f tests/seed_demo.rs
cargo test -j 6 --workspace --offline --no-fail-fast > $S/c_suite.log 2>&1; R2=$?
PASSED=$(grep -E "^test result" $S/c_suite.log | awk '{s+=$4} END{print s+0}')
FAILED=$(grep -E "^test result" $S/c_suite.log | awk '{s+=$6} END{print s+0}')
git checkout -q -- . ; git clean -fdq -e target
echo "{\"apply\":true,\"demo_clean_rc\":$R1,\"suite_rc\":$R2,\"suite_passed\":$PASSED,\"suite_failed\":$FAILED,\"demo_patched_rc\":$R3}" > $S/confirm.json
cat $S/confirm.json
