#!/usr/bin/env python3
"""dbgtrace.py <spec e.g. simple/SGTrace> <trace.ndjson> <line> : show the spec state TLC reached before <line> and the event"""
import json, os, sys
sys.path.insert(0, os.path.dirname(os.path.abspath(__file__)))
from vlib import *
spec, tp, at = sys.argv[1], os.path.abspath(sys.argv[2]), int(sys.argv[3])
specdir = os.path.dirname(os.path.join(SPEC, spec)); mod = os.path.basename(spec)
cfg = open(os.path.join(specdir, mod + ".cfg")).read().replace("DbgAt = 0", "DbgAt = %d" % at)
open(os.path.join(specdir, "out_dbg.cfg"), "w").write(cfg)
r = tlc(spec, "out_dbg.cfg", workers=1, env={"TRACE": tp}, deque=True, tag="dbg", timeout=120)
os.remove(os.path.join(specdir, "out_dbg.cfg"))
txt = r.out
i = txt.rfind("State ")
print(txt[i:i + 2500] if i >= 0 else txt[-2500:])
out = read_ndjson(tp)
for k in range(max(0, at - 4), at):
    e = dict(out[k])
    for f in ("per", "pairs", "eq"):
        if f in e: e[f] = "<%d>" % len(e[f])
    print(k + 1, json.dumps(e)[:900])
