//! R3: run petgraph's algorithms on every encoding of an abstract graph and record
//! (input, encoding, outputs) for the TLA+ oracles.  Outputs are mapped back to abstract
//! node ids; a panic is recorded as ["panic"] (it is data for the oracle).
use crate::common::*;
use crate::enc::*;
use petgraph::algo;
use petgraph::data::DataMap;
use petgraph::visit::*;
use petgraph::{Directed, Undirected};
use serde_json::{json, Value};

pub fn okv(v: Value) -> Value {
    json!(["ok", v])
}
/// run, catching panics
pub fn run(f: impl FnOnce() -> Value) -> Value {
    match guard(f) {
        Ok(v) => okv(v),
        Err(()) => json!(["panic"]),
    }
}

pub struct Out<'a> {
    pub log: &'a mut Log,
    pub matrix: std::collections::BTreeMap<String, usize>, // applicability: "algo/enc" -> runs
}
impl<'a> Out<'a> {
    pub fn rec(&mut self, prop: &str, enc: &str, hist: &str, ag: &AG, mut fields: serde_json::Map<String, Value>) {
        for k in fields.keys() {
            *self.matrix.entry(format!("{}/{}", k, enc)).or_insert(0) += 1;
        }
        fields.insert("prop".into(), json!(prop));
        fields.insert("enc".into(), json!(enc));
        fields.insert("hist".into(), json!(hist));
        fields.insert("n".into(), json!(ag.n));
        fields.insert("dir".into(), json!(ag.directed));
        fields.insert("E".into(), ag.edges_json());
        self.log.ev(Value::Object(fields));
    }
}

/// Expand `$body` (which must evaluate to serde_json::Map of fields) once per encoding x history.
/// Inside, `$g` is the container, `$fwd[i]` the container id of abstract node i, `$inv` the inverse.
#[macro_export]
macro_rules! each_enc {
    ($out:expr, $prop:expr, $ag:expr, $rng:expr, [$($enc:ident),*], |$g:ident, $fwd:ident, $inv:ident| $body:expr) => {{
        $( each_enc!(@one $enc, i64, $out, $prop, $ag, $rng, |$g, $fwd, $inv| $body); )*
    }};
    ($out:expr, $prop:expr, $ag:expr, $rng:expr, $E:ty, [$($enc:ident),*], |$g:ident, $fwd:ident, $inv:ident| $body:expr) => {{
        $( each_enc!(@one $enc, $E, $out, $prop, $ag, $rng, |$g, $fwd, $inv| $body); )*
    }};
    (@emit $out:expr, $prop:expr, $ag:expr, $ename:expr, $h:expr, $build:expr, |$g:ident, $fwd:ident, $inv:ident| $body:expr) => {{
        let ($g, $fwd) = $build;
        let $inv = inv_of(&$fwd);
        let fields = $body;
        $out.rec($prop, $ename, HISTS[$h], $ag, fields);
    }};
    (@one graph, $E:ty, $out:expr, $prop:expr, $ag:expr, $rng:expr, |$g:ident, $fwd:ident, $inv:ident| $body:expr) => {
        for h in 0..3 {
            if $ag.directed { each_enc!(@emit $out, $prop, $ag, "graph", h, build_graph::<Directed, $E>($ag, h, $rng), |$g, $fwd, $inv| $body) }
            else { each_enc!(@emit $out, $prop, $ag, "graph", h, build_graph::<Undirected, $E>($ag, h, $rng), |$g, $fwd, $inv| $body) }
        }
    };
    (@one stable, $E:ty, $out:expr, $prop:expr, $ag:expr, $rng:expr, |$g:ident, $fwd:ident, $inv:ident| $body:expr) => {
        for h in 0..3 {
            if $ag.directed { each_enc!(@emit $out, $prop, $ag, "stable", h, build_stable::<Directed, $E>($ag, h, $rng), |$g, $fwd, $inv| $body) }
            else { each_enc!(@emit $out, $prop, $ag, "stable", h, build_stable::<Undirected, $E>($ag, h, $rng), |$g, $fwd, $inv| $body) }
        }
    };
    // f64 only: NaN-weighted self-loops on top of the abstract graph (never selectable by a spanning forest or a path,
    // but present in every weight-ordered container the algorithm uses)
    (@one graph_nan, $E:ty, $out:expr, $prop:expr, $ag:expr, $rng:expr, |$g:ident, $fwd:ident, $inv:ident| $body:expr) => {
        for h in 0..3 {
            if $ag.directed { each_enc!(@emit $out, $prop, $ag, "graph_nan", h, with_nan_loops(build_graph::<Directed, f64>($ag, h, $rng), $rng), |$g, $fwd, $inv| $body) }
            else { each_enc!(@emit $out, $prop, $ag, "graph_nan", h, with_nan_loops(build_graph::<Undirected, f64>($ag, h, $rng), $rng), |$g, $fwd, $inv| $body) }
        }
    };
    (@one graphd, $E:ty, $out:expr, $prop:expr, $ag:expr, $rng:expr, |$g:ident, $fwd:ident, $inv:ident| $body:expr) => {
        if $ag.directed { for h in 0..3 { each_enc!(@emit $out, $prop, $ag, "graph", h, build_graph::<Directed, $E>($ag, h, $rng), |$g, $fwd, $inv| $body) } }
    };
    (@one graphu, $E:ty, $out:expr, $prop:expr, $ag:expr, $rng:expr, |$g:ident, $fwd:ident, $inv:ident| $body:expr) => {
        if !$ag.directed { for h in 0..3 { each_enc!(@emit $out, $prop, $ag, "graph", h, build_graph::<Undirected, $E>($ag, h, $rng), |$g, $fwd, $inv| $body) } }
    };
    (@one stabled, $E:ty, $out:expr, $prop:expr, $ag:expr, $rng:expr, |$g:ident, $fwd:ident, $inv:ident| $body:expr) => {
        if $ag.directed { for h in 0..3 { each_enc!(@emit $out, $prop, $ag, "stable", h, build_stable::<Directed, $E>($ag, h, $rng), |$g, $fwd, $inv| $body) } }
    };
    (@one matrixd, $E:ty, $out:expr, $prop:expr, $ag:expr, $rng:expr, |$g:ident, $fwd:ident, $inv:ident| $body:expr) => {
        if $ag.is_simple() && $ag.directed {
            for h in 0..3 {
                each_enc!(@emit $out, $prop, $ag, "matrix", h, build_matrix::<Directed, $E>($ag, h, $rng), |$g, $fwd, $inv| $body)
            }
        }
    };
    (@one matrixu, $E:ty, $out:expr, $prop:expr, $ag:expr, $rng:expr, |$g:ident, $fwd:ident, $inv:ident| $body:expr) => {
        if $ag.is_simple() && !$ag.directed {
            for h in 0..3 {
                each_enc!(@emit $out, $prop, $ag, "matrix", h, build_matrix::<Undirected, $E>($ag, h, $rng), |$g, $fwd, $inv| $body)
            }
        }
    };
    (@one map, $E:ty, $out:expr, $prop:expr, $ag:expr, $rng:expr, |$g:ident, $fwd:ident, $inv:ident| $body:expr) => {
        if $ag.is_simple() {
            for h in 0..3 {
                if $ag.directed { each_enc!(@emit $out, $prop, $ag, "map", h, build_map::<Directed, $E>($ag, h, $rng), |$g, $fwd, $inv| $body) }
                else { each_enc!(@emit $out, $prop, $ag, "map", h, build_map::<Undirected, $E>($ag, h, $rng), |$g, $fwd, $inv| $body) }
            }
        }
    };
    (@one csr, $E:ty, $out:expr, $prop:expr, $ag:expr, $rng:expr, |$g:ident, $fwd:ident, $inv:ident| $body:expr) => {
        if $ag.is_simple() {
            for h in 0..3 {
                if $ag.directed { each_enc!(@emit $out, $prop, $ag, "csr", h, build_csr::<Directed, $E>($ag, h, $rng), |$g, $fwd, $inv| $body) }
                else { each_enc!(@emit $out, $prop, $ag, "csr", h, build_csr::<Undirected, $E>($ag, h, $rng), |$g, $fwd, $inv| $body) }
            }
        }
    };
    (@one list, $E:ty, $out:expr, $prop:expr, $ag:expr, $rng:expr, |$g:ident, $fwd:ident, $inv:ident| $body:expr) => {
        if $ag.directed {
            for h in 0..2 {
                each_enc!(@emit $out, $prop, $ag, "list", h, build_list::<$E>($ag, h, $rng), |$g, $fwd, $inv| $body)
            }
        }
    };
}

pub type Fields = serde_json::Map<String, Value>;

pub fn with_nan_loops<Ty: petgraph::EdgeType>(built: (petgraph::Graph<i32, f64, Ty, u32>, Vec<petgraph::graph::NodeIndex<u32>>), rng: &mut Rng) -> (petgraph::Graph<i32, f64, Ty, u32>, Vec<petgraph::graph::NodeIndex<u32>>) {
    let (mut g, fwd) = built;
    for _ in 0..1 + rng.below(2) {
        let v = fwd[rng.below(fwd.len())];
        g.add_edge(v, v, f64::NAN);
    }
    (g, fwd)
}

// ------------------------------------------------------------------------------------------ C09

fn sccs_json<N: Copy + Eq + std::hash::Hash>(s: Vec<Vec<N>>, inv: &std::collections::HashMap<N, usize>) -> Value {
    json!(s.iter().map(|c| c.iter().map(|x| inv[x]).collect::<Vec<_>>()).collect::<Vec<_>>())
}

/// algorithms with the weakest bounds: every encoding
fn c09_weak<G>(g: G, fwd: &[G::NodeId], inv: &std::collections::HashMap<G::NodeId, usize>, f: &mut Fields, directed: bool)
where
    G: IntoNeighbors + IntoNodeIdentifiers + Visitable + NodeIndexable + IntoEdgeReferences + Copy,
    G::Map: Default,
    G::NodeId: Eq + std::hash::Hash + std::fmt::Debug,
{
    f.insert("tar".into(), run(|| sccs_json(algo::tarjan_scc(g), inv)));
    f.insert("trun".into(), run(|| {
        let mut t = algo::TarjanScc::new();
        let mut sccs = vec![];
        t.run(g, |c| sccs.push(c.to_vec()));
        // run twice on the same object: it must reset itself
        let mut sccs2 = vec![];
        t.run(g, |c| sccs2.push(c.to_vec()));
        let cidx: Vec<usize> = fwd.iter().map(|&v| t.node_component_index(g, v)).collect();
        json!({"sccs": sccs_json(sccs2, inv), "cidx": cidx, "first": sccs_json(sccs, inv)})
    }));
    let n = fwd.len();
    f.insert("hp".into(), run(|| json!((0..n).map(|a| (0..n).map(|b| algo::has_path_connecting(g, fwd[a], fwd[b], None)).collect::<Vec<_>>()).collect::<Vec<_>>())));
    f.insert("hp2".into(), run(|| {
        let mut space = algo::DfsSpace::new(g);
        json!((0..n).map(|a| (0..n).map(|b| algo::has_path_connecting(g, fwd[a], fwd[b], Some(&mut space))).collect::<Vec<_>>()).collect::<Vec<_>>())
    }));
    // a workspace that was not created from this graph (DfsSpace::default()): reset must size it
    f.insert("hp3".into(), run(|| {
        let mut space: algo::DfsSpace<G::NodeId, G::Map> = Default::default();
        json!((0..n).map(|a| (0..n).map(|b| algo::has_path_connecting(g, fwd[a], fwd[b], Some(&mut space))).collect::<Vec<_>>()).collect::<Vec<_>>())
    }));
    f.insert("cycu".into(), run(|| json!(algo::is_cyclic_undirected(g))));
    if directed {
        f.insert("cycd".into(), run(|| json!(algo::is_cyclic_directed(g))));
    } else {
        f.insert("bip".into(), run(|| json!((0..n).map(|s| algo::is_bipartite_undirected(g, fwd[s])).collect::<Vec<_>>())));
    }
}

/// algorithms that need IntoNeighborsDirected
fn c09_nd<G>(g: G, fwd: &[G::NodeId], inv: &std::collections::HashMap<G::NodeId, usize>, f: &mut Fields, directed: bool)
where
    G: IntoNeighborsDirected + IntoNodeIdentifiers + Visitable + Copy,
    G::Map: Default,
    G::NodeId: Eq + std::hash::Hash + std::fmt::Debug,
{
    let n = fwd.len();
    f.insert("kos".into(), run(|| sccs_json(algo::kosaraju_scc(g), inv)));
    #[allow(deprecated)]
    f.insert("sccdep".into(), run(|| sccs_json(algo::scc(g), inv)));       // the deprecated alias
    if directed {
        let topo = |space: Option<&mut algo::DfsSpace<G::NodeId, G::Map>>| match algo::toposort(g, space) {
            Ok(o) => json!(["order", o.iter().map(|x| inv[x]).collect::<Vec<_>>()]),
            Err(c) => json!(["cycle", inv[&c.node_id()]]),
        };
        f.insert("topo".into(), run(|| topo(None)));
        f.insert("topo3".into(), run(|| {
            let mut space: algo::DfsSpace<G::NodeId, G::Map> = Default::default();
            topo(Some(&mut space))
        }));
        f.insert("topo2".into(), run(|| {
            let mut space = algo::DfsSpace::new(g);
            let _ = algo::has_path_connecting(g, fwd[0], fwd[n - 1], Some(&mut space)); // dirty the workspace
            let a = topo(Some(&mut space));
            let b = topo(Some(&mut space));
            assert_eq!(a, b);
            b
        }));
    }
}

fn c09_compact<G>(g: G, f: &mut Fields)
where
    G: NodeCompactIndexable + IntoEdgeReferences + Copy,
{
    f.insert("cc".into(), run(|| json!(algo::connected_components(g))));
}

fn c09_cond<Ty: petgraph::EdgeType>(g: &petgraph::Graph<i32, i64, Ty, u32>, f: &mut Fields) {
    for (name, acyc) in [("cond", false), ("conda", true)] {
        let h = g.clone();
        f.insert(name.into(), run(|| {
            let c = algo::condensation(h, acyc);
            json!({
                "nodes": c.node_weights().map(|ws| ws.iter().map(|&w| w as usize).collect::<Vec<_>>()).collect::<Vec<_>>(),
                "edges": c.edge_references().map(|e| json!([e.source().index() + 1, e.target().index() + 1, *e.weight()])).collect::<Vec<_>>(),
            })
        }));
    }
}

type FB = <petgraph::Graph<(), (), Directed, u32> as petgraph::visit::Visitable>::Map;

/// a workspace created for a smaller graph and used there (every bit set), as a caller that keeps one DfsSpace
/// across a growing graph would hand it over
fn dirty_small_space(k: usize) -> algo::DfsSpace<petgraph::graph::NodeIndex<u32>, FB> {
    let mut small: petgraph::Graph<(), (), Directed, u32> = petgraph::Graph::new();
    let ids: Vec<_> = (0..k).map(|_| small.add_node(())).collect();
    for w in ids.windows(2) {
        small.add_edge(w[0], w[1], ());
    }
    let mut space = algo::DfsSpace::new(&small);
    if k > 1 {
        let _ = algo::has_path_connecting(&small, ids[0], ids[k - 1], Some(&mut space));
    }
    space
}

/// Graph / StableGraph (NodeIndex<u32>, FixedBitSet): reuse of a workspace that has to grow
fn c09_grown_space<G>(g: G, fwd: &[G::NodeId], inv: &std::collections::HashMap<G::NodeId, usize>, f: &mut Fields, directed: bool)
where
    G: IntoNeighborsDirected + IntoNodeIdentifiers + Visitable<NodeId = petgraph::graph::NodeIndex<u32>, Map = FB> + Copy,
{
    let n = fwd.len();
    if n > 10 { return; }
    let k = (n / 2).max(1);
    f.insert("hp4".into(), run(|| json!((0..n).map(|a| (0..n).map(|b| {
        let mut space = dirty_small_space(if (a + b) % 2 == 0 { k } else { n.saturating_sub(1).max(1) });
        algo::has_path_connecting(g, fwd[a], fwd[b], Some(&mut space))
    }).collect::<Vec<_>>()).collect::<Vec<_>>())));
    if directed {
        f.insert("topo4".into(), run(|| {
            let mut space = dirty_small_space(k);
            match algo::toposort(g, Some(&mut space)) {
                Ok(o) => json!(["order", o.iter().map(|x| inv[x]).collect::<Vec<_>>()]),
                Err(c) => json!(["cycle", inv[&c.node_id()]]),
            }
        }));
    }
}

pub fn c09_graph(out: &mut Out, ag: &AG, rng: &mut Rng) {
    if ag.n == 0 {
        return;
    }
    let d = ag.directed;
    each_enc!(out, "C09", ag, rng, [graph], |g, fwd, inv| {
        let mut f = Fields::new();
        c09_weak(&g, &fwd, &inv, &mut f, d);
        c09_nd(&g, &fwd, &inv, &mut f, d);
        c09_compact(&g, &mut f);
        c09_cond(&g, &mut f);
        c09_grown_space(&g, &fwd, &inv, &mut f, d);
        f
    });
    each_enc!(out, "C09", ag, rng, [stable], |g, fwd, inv| {
        let mut f = Fields::new();
        c09_weak(&g, &fwd, &inv, &mut f, d);
        c09_nd(&g, &fwd, &inv, &mut f, d);
        c09_grown_space(&g, &fwd, &inv, &mut f, d);
        f
    });
    each_enc!(out, "C09", ag, rng, [map, matrixd], |g, fwd, inv| {
        let mut f = Fields::new();
        c09_weak(&g, &fwd, &inv, &mut f, d);
        c09_nd(&g, &fwd, &inv, &mut f, d);
        f
    });
    each_enc!(out, "C09", ag, rng, [matrixu], |g, fwd, inv| {
        let mut f = Fields::new();
        c09_weak(&g, &fwd, &inv, &mut f, d);
        f
    });
    each_enc!(out, "C09", ag, rng, [csr, list], |g, fwd, inv| {
        let mut f = Fields::new();
        c09_weak(&g, &fwd, &inv, &mut f, d);
        c09_compact(&g, &mut f);
        f
    });
}

// ------------------------------------------------------------------------------------------
// input sweeps

// ------------------------------------------------------------------------------------------ C10

/// abstract shortest distances (plain relaxation on the abstract graph) - used only to build
/// admissible heuristics; their admissibility is re-checked by the oracle.
fn abstract_dist_to(ag: &AG, goals: &[usize]) -> Vec<i64> {
    let mut d = vec![INF; ag.n];
    for &g in goals {
        d[g] = 0;
    }
    for _ in 0..ag.n {
        for &(s, t, w) in &ag.edges {
            if d[t] + w < d[s] { d[s] = d[t] + w; }
            if !ag.directed && d[s] + w < d[t] { d[t] = d[s] + w; }
        }
    }
    d
}

fn distmap_json<N: Copy + Eq + std::hash::Hash, K: EW>(m: &hashbrown::HashMap<N, K>, fwd: &[N]) -> Value {
    json!(fwd.iter().map(|v| m.get(v).map(|k| k.to_i64()).unwrap_or(-1)).collect::<Vec<_>>())
}

fn c10_core<G, K: EW + algo::Measure + Default>(g: G, fwd: &[G::NodeId], inv: &std::collections::HashMap<G::NodeId, usize>, ag: &AG, rng: &mut Rng, f: &mut Fields)
where
    G: IntoEdges + Visitable + Copy,
    G::NodeId: Eq + std::hash::Hash,
    G::EdgeWeight: EW,
{
    let n = fwd.len();
    let cost = |e: G::EdgeRef| K::from_i64(e.weight().to_i64());
    f.insert("dj".into(), run(|| json!((0..n).map(|s| distmap_json(&algo::dijkstra(g, fwd[s], None, cost), fwd)).collect::<Vec<_>>())));
    // the same through a NodeFiltered view keeping the even abstract ids: judged on the node-induced subgraph (rows of
    // hidden sources are not computed: -2)
    f.insert("dj_nf".into(), run(|| {
        let keep = |x: G::NodeId| inv.get(&x).map(|i| i % 2 == 0).unwrap_or(false);
        let nf = petgraph::visit::NodeFiltered::from_fn(g, keep);
        json!((0..n).map(|s| if s % 2 == 0 { distmap_json(&algo::dijkstra(&nf, fwd[s], None, |e| K::from_i64(e.weight().to_i64())), fwd) } else { json!([-2]) }).collect::<Vec<_>>())
    }));
    // with a goal: a few (s, goal) pairs
    let pairs: Vec<(usize, usize)> = (0..n.min(4)).map(|_| (rng.below(n), rng.below(n))).collect();
    f.insert("djg".into(), run(|| json!(pairs.iter().map(|&(s, t)| json!({"s": s, "t": t, "d": distmap_json(&algo::dijkstra(g, fwd[s], Some(fwd[t]), cost), fwd)})).collect::<Vec<_>>())));
    // astar with goal sets and four kinds of admissible heuristic
    let mut cases = vec![];
    let wide = ag.edges.iter().any(|e| e.2 > 8);
    for _ in 0..(if wide { 14 } else { n.min(4) }) {
        let s = rng.below(n);
        let mut goals: Vec<usize> = (0..n).filter(|_| rng.chance(1, 3)).collect();
        if goals.is_empty() && rng.chance(4, 5) {
            goals.push(rng.below(n));
        }
        let exact = abstract_dist_to(ag, &goals);
        let kind = if wide { 2 + rng.below(3) } else { rng.below(5) };
        // kind 4: exact everywhere except one or two nodes that are under-estimated: those are expanded too early,
        // possibly over a worse route, and must be expanded AGAIN when the better route is found
        let low: Vec<usize> = (0..(1 + rng.below(2))).map(|_| rng.below(n)).collect();
        let h: Vec<i64> = (0..n).map(|v| match kind {
            4 => if exact[v] >= INF { 7 } else if low.contains(&v) { rng.range(0, exact[v]) } else { exact[v] },
            0 => 0,
            1 => if exact[v] >= INF { 7 } else { exact[v] },
            3 => if exact[v] >= INF { 7 } else if rng.chance(1, 2) { exact[v] } else { 0 },     // exact on some nodes, blind on others
            _ => if exact[v] >= INF { rng.below(9) as i64 } else { rng.range(0, exact[v]) }, // admissible, inconsistent
        }).collect();
        cases.push((s, goals, h));
    }
    if let Some(hint) = ASTAR_HINT.with(|c| c.borrow().clone()) {
        cases.push(hint);
    }
    f.insert("astar".into(), run(|| json!(cases.iter().map(|(s, goals, h)| {
        let r = algo::astar(g, fwd[*s], |x| goals.contains(&inv[&x]), cost, |x| K::from_i64(h[inv[&x]]));
        json!({"s": s, "goals": goals, "h": h, "r": match r {
            None => json!(["none"]),
            Some((c, p)) => json!(["some", c.to_i64(), p.iter().map(|x| inv[x]).collect::<Vec<_>>()]),
        }})
    }).collect::<Vec<_>>())));
}

fn c10_ksp<G, K: EW + algo::Measure + Default>(g: G, fwd: &[G::NodeId], f: &mut Fields)
where
    G: IntoEdges + Visitable + NodeCount + NodeIndexable + Copy,
    G::NodeId: Eq + std::hash::Hash,
    G::EdgeWeight: EW,
{
    let n = fwd.len();
    let cost = |e: G::EdgeRef| K::from_i64(e.weight().to_i64());
    f.insert("ksp".into(), run(|| json!((1..=3usize).map(|k| json!({"k": k, "d": (0..n).map(|s| distmap_json(&algo::k_shortest_path(g, fwd[s], None, k, cost), fwd)).collect::<Vec<_>>()})).collect::<Vec<_>>())));
}

pub fn c10_graph(out: &mut Out, ag: &AG, rng: &mut Rng) {
    if ag.n == 0 {
        return;
    }
    let flt = rng.chance(1, 3);
    macro_rules! body { ($K:ty, $g:ident, $fwd:ident, $inv:ident, $ksp:expr) => {{
        let mut f = Fields::new();
        let mut r2 = rng.clone();
        c10_core::<_, $K>(&$g, &$fwd, &$inv, ag, &mut r2, &mut f);
        // the k-th-walk oracle is a DP over (length, node, cost): keep it to tiny inputs
        if $ksp && ag.n <= 3 && ag.edges.iter().all(|e| e.2 <= 3) { c10_ksp::<_, $K>(&$g, &$fwd, &mut f); }
        f
    }}}
    if flt {
        each_enc!(out, "C10", ag, rng, f64, [graph, stable, matrixd, matrixu, map, csr], |g, fwd, inv| body!(f64, g, fwd, inv, true));
    } else {
        each_enc!(out, "C10", ag, rng, [graph, stable, matrixd, matrixu, map, csr], |g, fwd, inv| body!(i64, g, fwd, inv, true));
        each_enc!(out, "C10", ag, rng, [list], |g, fwd, inv| body!(i64, g, fwd, inv, false));
    }
}

// ------------------------------------------------------------------------------------------ C11

fn paths_json<N: Copy + Eq + std::hash::Hash, K: EW>(r: Result<algo::bellman_ford::Paths<N, K>, algo::NegativeCycle>, fwd_ix: &[usize], inv: &std::collections::HashMap<N, usize>) -> Value {
    match r {
        Err(_) => json!(["negcycle"]),
        Ok(p) => json!(["paths",
            fwd_ix.iter().map(|&i| p.distances[i].to_i64().min(INF)).collect::<Vec<_>>(),
            fwd_ix.iter().map(|&i| p.predecessors[i].map(|x| inv[&x] as i64).unwrap_or(-1)).collect::<Vec<_>>()]),
    }
}
fn clampk<K: EW + algo::BoundedMeasure>(k: K) -> i64 {
    if k == K::max() { INF } else { k.to_i64() }
}

/// bellman_ford / find_negative_cycle use the graph's own (float) weights
fn c11_bf<G>(g: G, fwd: &[G::NodeId], inv: &std::collections::HashMap<G::NodeId, usize>, f: &mut Fields)
where
    G: NodeCount + IntoNodeIdentifiers + IntoEdges + NodeIndexable + Visitable + Copy,
    G::NodeId: Eq + std::hash::Hash,
    G::EdgeWeight: algo::FloatMeasure + EW,
{
    let n = fwd.len();
    let ix: Vec<usize> = fwd.iter().map(|&v| g.to_index(v)).collect();
    f.insert("bf".into(), run(|| json!((0..n).map(|s| paths_json(algo::bellman_ford(g, fwd[s]), &ix, inv)).collect::<Vec<_>>())));
    f.insert("fnc".into(), run(|| json!((0..n).map(|s| match algo::find_negative_cycle(g, fwd[s]) {
        None => json!(["none"]),
        Some(c) => json!(["some", c.iter().map(|x| inv[x]).collect::<Vec<_>>()]),
    }).collect::<Vec<_>>())));
}

fn c11_spfa<G, K>(g: G, fwd: &[G::NodeId], inv: &std::collections::HashMap<G::NodeId, usize>, f: &mut Fields, name: &str)
where
    G: IntoEdges + IntoNodeIdentifiers + NodeIndexable + Copy,
    G::NodeId: Eq + std::hash::Hash,
    G::EdgeWeight: EW,
    K: EW + algo::BoundedMeasure + Default,
{
    let n = fwd.len();
    let ix: Vec<usize> = fwd.iter().map(|&v| g.to_index(v)).collect();
    f.insert(name.into(), run(|| json!((0..n).map(|s| match algo::spfa(g, fwd[s], |e| K::from_i64(e.weight().to_i64())) {
        Err(_) => json!(["negcycle"]),
        Ok(p) => json!(["paths",
            ix.iter().map(|&i| clampk(p.distances[i])).collect::<Vec<_>>(),
            ix.iter().map(|&i| p.predecessors[i].map(|x| inv[&x] as i64).unwrap_or(-1)).collect::<Vec<_>>()]),
    }).collect::<Vec<_>>())));
}

fn c11_fw<G, K>(g: G, fwd: &[G::NodeId], f: &mut Fields, name: &str)
where
    G: NodeCompactIndexable + IntoEdgeReferences + IntoNodeIdentifiers + GraphProp + Copy,
    G::NodeId: Eq + std::hash::Hash,
    G::EdgeWeight: EW,
    K: EW + algo::BoundedMeasure + Default,
{
    let n = fwd.len();
    f.insert(name.into(), run(|| match algo::floyd_warshall(g, |e| K::from_i64(e.weight().to_i64())) {
        Err(_) => json!(["negcycle"]),
        Ok(m) => json!(["dist", (0..n).map(|a| (0..n).map(|b| m.get(&(fwd[a], fwd[b])).map(|&k| clampk(k)).unwrap_or(-7)).collect::<Vec<_>>()).collect::<Vec<_>>()]),
    }));
    let ix: Vec<usize> = fwd.iter().map(|&v| g.to_index(v)).collect();
    let mut back = vec![usize::MAX; g.node_bound()];
    for (a, &i) in ix.iter().enumerate() {
        back[i] = a;
    }
    f.insert(format!("{}p", name), run(|| match algo::floyd_warshall::floyd_warshall_path(g, |e| K::from_i64(e.weight().to_i64())) {
        Err(_) => json!(["negcycle"]),
        Ok((m, prev)) => json!(["dist",
            (0..n).map(|a| (0..n).map(|b| m.get(&(fwd[a], fwd[b])).map(|&k| clampk(k)).unwrap_or(-7)).collect::<Vec<_>>()).collect::<Vec<_>>(),
            (0..n).map(|a| (0..n).map(|b| prev[ix[a]][ix[b]].map(|p| back[p] as i64).unwrap_or(-1)).collect::<Vec<_>>()).collect::<Vec<_>>()]),
    }));
}

pub fn c11_graph(out: &mut Out, ag: &AG, rng: &mut Rng) {
    if ag.n == 0 {
        return;
    }
    each_enc!(out, "C11", ag, rng, f64, [graph], |g, fwd, inv| {
        let mut f = Fields::new();
        c11_bf(&g, &fwd, &inv, &mut f);
        c11_spfa::<_, f64>(&g, &fwd, &inv, &mut f, "spfa");
        c11_fw::<_, f64>(&g, &fwd, &mut f, "fw");
        f
    });
    each_enc!(out, "C11", ag, rng, f32, [stable, matrixd, matrixu, map], |g, fwd, inv| {
        let mut f = Fields::new();
        c11_bf(&g, &fwd, &inv, &mut f);
        c11_spfa::<_, f32>(&g, &fwd, &inv, &mut f, "spfa");
        f
    });
    each_enc!(out, "C11", ag, rng, [graph, csr], |g, fwd, inv| {
        let mut f = Fields::new();
        c11_spfa::<_, i32>(&g, &fwd, &inv, &mut f, "spfa");
        c11_fw::<_, i64>(&g, &fwd, &mut f, "fw");
        f
    });
    each_enc!(out, "C11", ag, rng, [stable, map, list], |g, fwd, inv| {
        let mut f = Fields::new();
        c11_spfa::<_, i64>(&g, &fwd, &inv, &mut f, "spfa");
        f
    });
}

// ------------------------------------------------------------------------------------------ C12

fn elements_json<N: Into<i64> + Copy, E: EW>(it: impl Iterator<Item = petgraph::data::Element<N, E>>, wmap: &std::collections::HashMap<i64, i64>) -> Value {
    let mut nodes = vec![];
    let mut edges = vec![];
    let mut order_ok = true;
    for el in it {
        match el {
            petgraph::data::Element::Node { weight } => {
                if !edges.is_empty() { order_ok = false; }
                // node weights identify the abstract nodes (GraphMap: the key is the weight)
                let w: i64 = weight.into();
                nodes.push(*wmap.get(&w).unwrap_or(&-1));
            }
            petgraph::data::Element::Edge { source, target, weight } => edges.push(json!([source, target, weight.to_i64()])),
        }
    }
    json!({"nodes": nodes, "edges": edges, "nodes_first": order_ok})
}

fn c12_kruskal<G>(g: G, inv: &std::collections::HashMap<G::NodeId, usize>, f: &mut Fields)
where
    G: IntoNodeReferences + IntoEdgeReferences + NodeIndexable + Copy + Data<NodeWeight = i32>,
    G::EdgeWeight: EW,
    G::NodeId: Eq + std::hash::Hash,
{
    // the node order the stream must follow
    f.insert("nord".into(), okv(json!(g.node_references().map(|r| inv[&r.id()]).collect::<Vec<_>>())));
    let wmap: std::collections::HashMap<i64, i64> = g.node_references().map(|r| (*r.weight() as i64, inv[&r.id()] as i64)).collect();
    f.insert("mst".into(), run(|| elements_json(algo::min_spanning_tree(g), &wmap)));
}
/// Kruskal through a NodeFiltered view (even abstract ids kept): judged on the node-induced subgraph
fn c12_kruskal_nf<G>(g: G, inv: &std::collections::HashMap<G::NodeId, usize>, f: &mut Fields)
where
    G: IntoNodeReferences + IntoEdgeReferences + NodeIndexable + Copy + Data<NodeWeight = i32>,
    G::EdgeWeight: EW,
    G::NodeId: Eq + std::hash::Hash + Copy,
{
    let keep = |x: G::NodeId| inv.get(&x).map(|i| i % 2 == 0).unwrap_or(false);
    let nf = petgraph::visit::NodeFiltered::from_fn(g, keep);
    f.insert("nord_nf".into(), okv(json!((&nf).node_references().map(|r| inv[&r.id()]).collect::<Vec<_>>())));
    let wmap: std::collections::HashMap<i64, i64> = g.node_references().map(|r| (*r.weight() as i64, inv[&r.id()] as i64)).collect();
    f.insert("mst_nf".into(), run(|| elements_json(algo::min_spanning_tree(&nf), &wmap)));
}
fn c12_prim<G>(g: G, inv: &std::collections::HashMap<G::NodeId, usize>, f: &mut Fields)
where
    G: IntoNodeReferences + IntoEdgeReferences + IntoEdges + NodeIndexable + Copy + Data<NodeWeight = i32>,
    G::EdgeWeight: EW,
    G::NodeId: Eq + std::hash::Hash,
{
    let wmap: std::collections::HashMap<i64, i64> = g.node_references().map(|r| (*r.weight() as i64, inv[&r.id()] as i64)).collect();
    f.insert("prim".into(), run(|| elements_json(algo::min_spanning_tree_prim(g), &wmap)));
}

pub fn c12_graph(out: &mut Out, ag: &AG, rng: &mut Rng) {
    if ag.n == 0 {
        return;
    }
    let und = !ag.directed;
    // graphs of this size are only generated as trees: the oracle then uses the cheap tree rule (all n-1 edges)
    let big_tree = ag.n > 64;
    macro_rules! body { ($g:ident, $inv:ident, $prim:expr) => {{
        let mut f = Fields::new();
        if big_tree { f.insert("tree".into(), json!(true)); }
        c12_kruskal(&$g, &$inv, &mut f);
        if und && $prim { c12_prim(&$g, &$inv, &mut f); }
        f
    }}}
    if big_tree {
        each_enc!(out, "C12", ag, rng, [graph, stable], |g, _fwd, inv| body!(g, inv, true));
    } else if rng.chance(1, 3) {
        each_enc!(out, "C12", ag, rng, f64, [graph, stable, csr, graph_nan], |g, _fwd, inv| body!(g, inv, true));
    } else {
        each_enc!(out, "C12", ag, rng, [graph, stable], |g, _fwd, inv| { let mut f = body!(g, inv, true); c12_kruskal_nf(&g, &inv, &mut f); f });
        each_enc!(out, "C12", ag, rng, [csr, map, matrixd, matrixu], |g, _fwd, inv| body!(g, inv, true));
    }
}

// ------------------------------------------------------------------------------------------ C16

thread_local! { pub static ASTAR_HINT: std::cell::RefCell<Option<(usize, Vec<usize>, Vec<i64>)>> = std::cell::RefCell::new(None); }
thread_local! { pub static ROOT0_ONLY: std::cell::Cell<bool> = std::cell::Cell::new(false); }

fn c16_dom<G>(g: G, fwd: &[G::NodeId], inv: &std::collections::HashMap<G::NodeId, usize>, f: &mut Fields)
where
    G: IntoNeighbors + Visitable + Copy,
    G::NodeId: Eq + std::hash::Hash + Copy,
{
    let n = if ROOT0_ONLY.with(|c| c.get()) { 1 } else { fwd.len() };   // flow graphs: the entry node only
    let nn = fwd.len();
    f.insert("dom".into(), run(|| json!((0..n).map(|r| {
        let d = algo::dominators::simple_fast(g, fwd[r]);
        let lst = |o: Option<algo::dominators::DominatorsIter<G::NodeId>>| match o { None => json!(["none"]), Some(it) => json!(["some", it.map(|x| inv[&x]).collect::<Vec<_>>()]) };
        json!({
            "root": inv[&d.root()],
            "idom": (0..nn).map(|v| d.immediate_dominator(fwd[v]).map(|x| inv[&x] as i64).unwrap_or(-1)).collect::<Vec<_>>(),
            "doms": (0..nn).map(|v| lst(d.dominators(fwd[v]))).collect::<Vec<_>>(),
            "sdoms": (0..nn).map(|v| lst(d.strict_dominators(fwd[v]))).collect::<Vec<_>>(),
            "idby": (0..nn).map(|v| d.immediately_dominated_by(fwd[v]).map(|x| inv[&x]).collect::<Vec<_>>()).collect::<Vec<_>>(),
        })
    }).collect::<Vec<_>>())));
}
fn c16_art<G>(g: G, inv: &std::collections::HashMap<G::NodeId, usize>, f: &mut Fields)
where
    G: IntoNodeReferences + IntoEdges + NodeIndexable + GraphProp + Copy,
    G::NodeWeight: Clone,
    G::EdgeWeight: Clone + PartialOrd,
    G::NodeId: Eq + std::hash::Hash,
{
    f.insert("art".into(), run(|| {
        let mut v: Vec<usize> = algo::articulation_points::articulation_points(g).iter().map(|x| inv[x]).collect();
        v.sort();
        json!(v)
    }));
}

pub fn c16_graph(out: &mut Out, ag: &AG, rng: &mut Rng) {
    if ag.n == 0 {
        return;
    }
    if ag.directed {
        each_enc!(out, "C16", ag, rng, [graph, stable, matrixd, map, csr, list], |g, fwd, inv| {
            let mut f = Fields::new();
            c16_dom(&g, &fwd, &inv, &mut f);
            f
        });
    } else {
        each_enc!(out, "C16", ag, rng, [graph, stable, matrixu, map, csr], |g, _fwd, inv| {
            let mut f = Fields::new();
            c16_art(&g, &inv, &mut f);
            f
        });
    }
}

// ------------------------------------------------------------------------------------------ C15

fn c15_match<G>(g: G, fwd: &[G::NodeId], inv: &std::collections::HashMap<G::NodeId, usize>, f: &mut Fields)
where
    G: Visitable + NodeIndexable + IntoNodeIdentifiers + IntoEdges + NodeCount + Copy,
    G::NodeId: Eq + std::hash::Hash + Copy,
    G::EdgeId: Eq + std::hash::Hash,
{
    let n = fwd.len();
    let dump = |m: &algo::Matching<G>| {
        json!({
            "mate": (0..n).map(|v| m.mate(fwd[v]).map(|x| inv[&x] as i64).unwrap_or(-1)).collect::<Vec<_>>(),
            "edges": m.edges().map(|(a, b)| json!([inv[&a], inv[&b]])).collect::<Vec<_>>(),
            "nodes": m.nodes().map(|a| inv[&a]).collect::<Vec<_>>(),
            "len": m.len(), "is_empty": m.is_empty(), "perfect": m.is_perfect(),
            "cn": (0..n).map(|v| m.contains_node(fwd[v])).collect::<Vec<_>>(),
            "ce": (0..n).map(|a| (0..n).map(|b| m.contains_edge(fwd[a], fwd[b])).collect::<Vec<_>>()).collect::<Vec<_>>(),
        })
    };
    f.insert("greedy".into(), run(|| dump(&algo::greedy_matching(g))));
    f.insert("maxm".into(), run(|| dump(&algo::maximum_matching(g))));
}

/// the same through a NodeFiltered view (even abstract ids kept): judged on the node-induced subgraph
fn c15_match_filtered<G>(g: G, fwd: &[G::NodeId], inv: &std::collections::HashMap<G::NodeId, usize>, f: &mut Fields)
where
    G: Visitable + NodeIndexable + IntoNodeIdentifiers + IntoEdges + Copy,
    G::NodeId: Eq + std::hash::Hash + Copy,
    G::EdgeId: Eq + std::hash::Hash,
{
    let keep = |x: G::NodeId| inv.get(&x).map(|i| i % 2 == 0).unwrap_or(false);   // maximum_matching also asks about vacant indices
    let nf = petgraph::visit::NodeFiltered::from_fn(g, keep);
    let n = fwd.len();
    macro_rules! dump { ($m:expr) => {{
        let m = $m;
        let kept = (0..n).filter(|v| v % 2 == 0).count();
        json!({
            "mate": (0..n).map(|v| m.mate(fwd[v]).map(|x| inv[&x] as i64).unwrap_or(-1)).collect::<Vec<_>>(),
            "edges": m.edges().map(|(a, b)| json!([inv[&a], inv[&b]])).collect::<Vec<_>>(),
            "nodes": m.nodes().map(|a| inv[&a]).collect::<Vec<_>>(),
            "len": m.len(), "is_empty": m.is_empty(), "perfect": 2 * m.len() == kept && false,
            "cn": (0..n).map(|v| m.contains_node(fwd[v])).collect::<Vec<_>>(),
            "ce": (0..n).map(|a| (0..n).map(|b| m.contains_edge(fwd[a], fwd[b])).collect::<Vec<_>>()).collect::<Vec<_>>(),
        })
    }}}
    f.insert("greedy_nf".into(), run(|| dump!(algo::greedy_matching(&nf))));
    f.insert("maxm_nf".into(), run(|| dump!(algo::maximum_matching(&nf))));
}

fn c15_flow<G>(g: G, fwd: &[G::NodeId], inv: &std::collections::HashMap<G::NodeId, usize>, f: &mut Fields, rng: &mut Rng)
where
    G: NodeCount + EdgeCount + IntoEdgesDirected + EdgeIndexable + NodeIndexable + DataMap + Visitable + IntoEdgeReferences + Copy,
    G::EdgeWeight: EW + std::ops::Sub<Output = G::EdgeWeight> + algo::PositiveMeasure,
    G::NodeId: Eq + std::hash::Hash + Copy,
{
    let n = fwd.len();
    if n < 2 {
        return;
    }
    let mut cases = vec![(0, n - 1)];
    for _ in 0..2 {
        let s = rng.below(n);
        let mut t = rng.below(n);
        if t == s {
            t = (s + 1) % n;
        }
        cases.push((s, t));
    }
    f.insert("flow".into(), run(|| json!(cases.iter().map(|&(s, t)| {
        let (v, flows) = algo::ford_fulkerson(g, fwd[s], fwd[t]);
        let edges: Vec<Value> = g.edge_references().map(|e| {
            let ix = EdgeIndexable::to_index(&g, e.id());
            json!([inv[&e.source()], inv[&e.target()], e.weight().to_i64(), flows.get(ix).map(|x| x.to_i64()).unwrap_or(-777)])
        }).collect();
        json!({"s": s, "t": t, "value": v.to_i64(), "edges": edges})
    }).collect::<Vec<_>>())));
}

pub fn c15_graph(out: &mut Out, ag: &AG, rng: &mut Rng) {
    if ag.n == 0 || (ag.edges.len() > 13 && (ag.n > 16 || ag.edges.len() > 40)) {
        return;
    }
    // more than 13 edges: the oracle cannot enumerate all matchings; the maximum is certified instead by a
    // Tutte-Berge set U computed here by brute force and VERIFIED by the oracle (any U gives an upper bound)
    let cert = ag.edges.len() > 13;
    let tb = if cert { Some(tutte_berge_witness(ag)) } else { None };
    each_enc!(out, "C15", ag, rng, [graph, stable], |g, fwd, inv| {
        let mut f = Fields::new();
        c15_match(&g, &fwd, &inv, &mut f);
        if !cert { c15_match_filtered(&g, &fwd, &inv, &mut f); }
        if let Some(u) = &tb { f.insert("tb_u".into(), json!(u)); }
        f
    });
    each_enc!(out, "C15", ag, rng, [matrixd, matrixu, map, csr, list], |g, fwd, inv| {
        let mut f = Fields::new();
        c15_match(&g, &fwd, &inv, &mut f);
        if let Some(u) = &tb { f.insert("tb_u".into(), json!(u)); }
        f
    });
    if cert { return; }
    if ag.directed {
        // capacities: |w|
        let cap = AG { n: ag.n, directed: true, edges: ag.edges.iter().map(|&(s, t, w)| (s, t, w.abs())).collect() };
        let mut r2 = rng.clone();
        if rng.chance(1, 2) {
            each_enc!(out, "C15", &cap, rng, u32, [graph, stable], |g, fwd, inv| {
                let mut f = Fields::new();
                c15_flow(&g, &fwd, &inv, &mut f, &mut r2.clone());
                f
            });
        } else {
            each_enc!(out, "C15", &cap, rng, f64, [graph, stable], |g, fwd, inv| {
                let mut f = Fields::new();
                c15_flow(&g, &fwd, &inv, &mut f, &mut r2.clone());
                f
            });
        }
        r2.next();
    }
}

// ------------------------------------------------------------------------------------------ C13

/// simple graph (loops allowed) with node weights and edge weights in {0,1}
fn simple_pair_graph(rng: &mut Rng, n: usize, directed: bool, dens: u32) -> (AG, Vec<i32>) {
    let mut edges = vec![];
    for s in 0..n {
        for t in 0..n {
            if !directed && s > t {
                continue;
            }
            let p = if s == t { dens / 2 } else { dens };
            if rng.chance(p, 10) {
                edges.push((s, t, rng.below(2) as i64));
            }
        }
    }
    let nw = (0..n).map(|_| rng.below(2) as i32).collect();
    (AG { n, directed, edges }, nw)
}

fn build_iso<Ty: petgraph::EdgeType>(ag: &AG, nw: &[i32], hist: usize, rng: &mut Rng) -> (petgraph::Graph<i32, i64, Ty, u32>, Vec<petgraph::graph::NodeIndex<u32>>) {
    // build with abstract ids as weights (so that histories can renumber), then put the real node weights
    let (g0, fwd) = build_graph::<Ty, i64>(ag, hist, rng);
    let g = g0.map(|_, &a| nw[a as usize], |_, &w| w);
    (g, fwd)
}

fn c13_pair<Ty: petgraph::EdgeType>(out: &mut Out, a0: &AG, w0: &[i32], a1: &AG, w1: &[i32], rng: &mut Rng) {
    for hist in 0..3 {
        let (g0, f0) = build_iso::<Ty>(a0, w0, hist, rng);
        let (g1, f1) = build_iso::<Ty>(a1, w1, (hist + 1) % 3, rng);
        // index -> abstract id
        let mut b0 = vec![0usize; a0.n];
        for (i, x) in f0.iter().enumerate() { b0[x.index()] = i; }
        let mut b1 = vec![0usize; a1.n];
        for (i, x) in f1.iter().enumerate() { b1[x.index()] = i; }
        let mut f = Fields::new();
        f.insert("iso".into(), run(|| json!(algo::is_isomorphic(&g0, &g1))));
        f.insert("isom".into(), run(|| json!(algo::is_isomorphic_matching(&g0, &g1, |a, b| a == b, |a, b| a == b))));
        f.insert("sub".into(), run(|| json!(algo::is_isomorphic_subgraph(&g0, &g1))));
        f.insert("subm".into(), run(|| json!(algo::is_isomorphic_subgraph_matching(&g0, &g1, |a, b| a == b, |a, b| a == b))));
        let maps = |it: Option<Box<dyn Iterator<Item = Vec<usize>> + '_>>| match it {
            None => json!(["none"]),
            Some(it) => {
                let v: Vec<Vec<usize>> = it.take(600).collect();
                if v.len() >= 600 { json!(["overflow"]) }
                else { json!(["some", v.iter().map(|m| (0..a0.n).map(|i| b1[m[f0[i].index()]]).collect::<Vec<_>>()).collect::<Vec<_>>()]) }
            }
        };
        f.insert("iter".into(), run(|| {
            let mut nm = |_: &i32, _: &i32| true;
            let mut em = |_: &i64, _: &i64| true;
            let (r0, r1) = (&g0, &g1);
            let it = algo::subgraph_isomorphisms_iter(&r0, &r1, &mut nm, &mut em);
            maps(it.map(|i| Box::new(i) as Box<dyn Iterator<Item = Vec<usize>>>))
        }));
        f.insert("iterm".into(), run(|| {
            let mut nm = |a: &i32, b: &i32| a == b;
            let mut em = |a: &i64, b: &i64| a == b;
            let (r0, r1) = (&g0, &g1);
            let it = algo::subgraph_isomorphisms_iter(&r0, &r1, &mut nm, &mut em);
            maps(it.map(|i| Box::new(i) as Box<dyn Iterator<Item = Vec<usize>>>))
        }));
        f.insert("n1".into(), json!(a1.n));
        f.insert("E1".into(), a1.edges_json());
        f.insert("nw0".into(), json!(w0));
        f.insert("nw1".into(), json!(w1));
        out.rec("C13", "graph", HISTS[hist], a0, f);
    }
}

pub fn c13_sweep(seed: u64, pairs: usize, out: &mut Out) {
    let mut rng = Rng::new(seed);
    for k in 0..pairs {
        let directed = k % 2 == 0;
        let n1 = rng.below(5);
        let dens = 2 + rng.below(6) as u32;
        let (a1, w1) = simple_pair_graph(&mut rng, n1, directed, dens);
        // g0: a relabelled copy, a perturbed copy, an induced subgraph, or independent
        let (a0, w0) = match k % 5 {
            0 => {
                let mut p: Vec<usize> = (0..n1).collect();
                rng.shuffle(&mut p);
                let mut w = vec![0; n1];
                for i in 0..n1 { w[p[i]] = w1[i]; }
                (a1.relabel(&p), w)
            }
            1 => {
                // same degree-ish: move one edge
                let mut p: Vec<usize> = (0..n1).collect();
                rng.shuffle(&mut p);
                let mut a = a1.relabel(&p);
                if !a.edges.is_empty() && n1 > 0 {
                    let i = rng.below(a.edges.len());
                    a.edges[i].1 = rng.below(n1);
                    let d = a.directed;
                    let mut seen = std::collections::HashSet::new();
                    a.edges.retain(|&(s, t, _)| seen.insert(if d || s <= t { (s, t) } else { (t, s) }));
                }
                let mut w = vec![0; n1];
                for i in 0..n1 { w[p[i]] = w1[i]; }
                (a, w)
            }
            2 | 3 => {
                // induced subgraph on a random subset (relabelled), maybe with one edge dropped
                let keep: Vec<usize> = (0..n1).filter(|_| rng.chance(2, 3)).collect();
                let mut pos = vec![usize::MAX; n1];
                let mut order: Vec<usize> = (0..keep.len()).collect();
                rng.shuffle(&mut order);
                for (j, &v) in keep.iter().enumerate() { pos[v] = order[j]; }
                let mut edges: Vec<(usize, usize, i64)> = a1.edges.iter().filter(|e| pos[e.0] != usize::MAX && pos[e.1] != usize::MAX).map(|e| (pos[e.0], pos[e.1], e.2)).collect();
                if k % 5 == 3 && !edges.is_empty() { let i = rng.below(edges.len()); edges.remove(i); }
                let mut w = vec![0; keep.len()];
                for &v in &keep { w[pos[v]] = w1[v]; }
                (AG { n: keep.len(), directed, edges }, w)
            }
            _ => { let n0 = rng.below(4); let d2 = 2 + rng.below(6) as u32; simple_pair_graph(&mut rng, n0, directed, d2) }
        };
        out.log.about_to(&json!({"prop": "C13", "dir": directed, "n": a0.n, "E": a0.edges_json(), "nw0": w0, "n1": a1.n, "E1": a1.edges_json(), "nw1": w1}));
        if directed { c13_pair::<Directed>(out, &a0, &w0, &a1, &w1, &mut rng); } else { c13_pair::<Undirected>(out, &a0, &w0, &a1, &w1, &mut rng); }
    }
}

// ------------------------------------------------------------------------------------------ C20

fn c20_und<G>(g: G, fwd: &[G::NodeId], inv: &std::collections::HashMap<G::NodeId, usize>, f: &mut Fields)
where
    G: IntoEdges + IntoNodeIdentifiers + Visitable + NodeIndexable + Copy,
    G::NodeId: Eq + std::hash::Hash + Copy,
{
    f.insert("color".into(), run(|| {
        let (m, k) = algo::dsatur_coloring(g);
        json!({"k": k, "c": fwd.iter().map(|v| m.get(v).map(|&c| c as i64).unwrap_or(-1)).collect::<Vec<_>>(), "extra": m.len() as i64 - fwd.len() as i64})
    }));
    let _ = inv;
}
fn c20_cliques<G>(g: G, inv: &std::collections::HashMap<G::NodeId, usize>, f: &mut Fields)
where
    G: GetAdjacencyMatrix + IntoNodeIdentifiers + IntoNeighbors + Copy,
    G::NodeId: Eq + std::hash::Hash + Copy,
{
    f.insert("cliques".into(), run(|| json!(algo::maximal_cliques(g).iter().map(|c| { let mut v: Vec<usize> = c.iter().map(|x| inv[x]).collect(); v.sort(); v }).collect::<Vec<_>>())));
}
fn c20_fas<G>(g: G, inv: &std::collections::HashMap<G::NodeId, usize>, f: &mut Fields)
where
    G: IntoEdgeReferences + GraphProp<EdgeType = Directed> + NodeCount + Copy,
    G::NodeId: petgraph::graph::GraphIndex + Eq + std::hash::Hash,
    G::EdgeWeight: EW,
{
    f.insert("fas".into(), run(|| json!(algo::greedy_feedback_arc_set(g).map(|e| json!([inv[&e.source()], inv[&e.target()], e.weight().to_i64()])).collect::<Vec<_>>())));
}
fn c20_paths<G>(g: G, fwd: &[G::NodeId], inv: &std::collections::HashMap<G::NodeId, usize>, f: &mut Fields, rng: &mut Rng)
where
    G: NodeCount + IntoNeighborsDirected + Copy,
    G::NodeId: Eq + std::hash::Hash + Copy,
{
    let n = fwd.len();
    if n < 2 {
        return;
    }
    let mut cases = vec![];
    for _ in 0..4 {
        let a = rng.below(n);
        let mut b = rng.below(n);
        if b == a { b = (a + 1) % n; }
        let min = rng.below(3);
        let max = if rng.chance(1, 3) { None } else { Some(min + rng.below(3)) };
        cases.push((a, b, min, max));
    }
    f.insert("paths".into(), run(|| json!(cases.iter().map(|&(a, b, min, max)| {
        let ps: Vec<Vec<G::NodeId>> = algo::all_simple_paths::<Vec<_>, _, std::collections::hash_map::RandomState>(g, fwd[a], fwd[b], min, max).take(3000).collect();
        json!({"a": a, "b": b, "min": min, "max": max.map(|x| x as i64).unwrap_or(-1), "ps": ps.iter().map(|p| p.iter().map(|x| inv[x]).collect::<Vec<_>>()).collect::<Vec<_>>()})
    }).collect::<Vec<_>>())));
}
fn c20_pagerank<G>(g: G, fwd: &[G::NodeId], f: &mut Fields, reference: &mut Option<Vec<i64>>)
where
    G: NodeCount + IntoEdges + NodeIndexable + Copy,
    G::NodeId: Copy,
{
    f.insert("pr".into(), run(|| {
        let r: Vec<f64> = algo::page_rank(g, 0.85f64, 30);
        // one rank per node index: report the rank of each abstract node and the vector length
        let mine: Vec<i64> = fwd.iter().map(|&v| r.get(g.to_index(v)).map(|x| (x * 1e6).round() as i64).unwrap_or(-777)).collect();
        // ranks of the first encoding of this abstract graph: every other encoding / relabelling must agree
        if reference.is_none() && r.len() == g.node_bound() { *reference = Some(mine.clone()); }
        json!({"len": r.len(), "bound": g.node_bound(), "r": mine, "ref": reference.clone().unwrap_or_default(),
               "neg": r.iter().any(|x| *x < 0.0), "sum": (r.iter().sum::<f64>() * 1e6).round() as i64})
    }));
}

pub fn c20_graph(out: &mut Out, ag: &AG, rng: &mut Rng) {
    let simple_noloop = ag.is_simple() && !ag.has_loop();
    if !ag.directed && simple_noloop {
        each_enc!(out, "C20", ag, rng, [graph, stable, map, csr], |g, fwd, inv| {
            let mut f = Fields::new();
            c20_und(&g, &fwd, &inv, &mut f);
            c20_cliques(&g, &inv, &mut f);
            f
        });
        each_enc!(out, "C20", ag, rng, [matrixu], |g, fwd, inv| {
            let mut f = Fields::new();
            c20_und(&g, &fwd, &inv, &mut f);
            c20_cliques(&g, &inv, &mut f);
            f
        });
        // steiner_tree: UnGraph only, connected graphs, positive weights
        let ug = AG { n: ag.n, directed: false, edges: ag.edges.iter().map(|&(s, t, w)| (s, t, w.abs() + 1)).collect() };
        let connected = {
            let mut comp: Vec<usize> = (0..ug.n).collect();
            for _ in 0..ug.n { for &(s, t, _) in &ug.edges { let m = comp[s].min(comp[t]); comp[s] = m; comp[t] = m; } }
            comp.iter().all(|&c| c == 0)
        };
        if connected && ug.n >= 2 && ug.n <= 6 {
            let mut r2 = rng.clone();
            each_enc!(out, "C20", &ug, rng, i32, [graphu], |g, fwd, _inv| {
                let mut f = Fields::new();
                {
                    let g = &g;
                    let mut cases = vec![];
                    let mut r3 = r2.clone();
                    for _ in 0..3 {
                        let mut t: Vec<usize> = (0..ug.n).filter(|_| r3.chance(1, 2)).collect();
                        if t.len() < 2 { t = vec![0, ug.n - 1]; }
                        cases.push(t);
                    }
                    f.insert("steiner".into(), run(|| json!(cases.iter().map(|t| {
                        let terms: Vec<_> = t.iter().map(|&i| fwd[i]).collect();
                        let st = algo::steiner_tree::steiner_tree(g, &terms);
                        // the result keeps the input graph's node indices
                        let mut b = vec![usize::MAX; g.node_count()];
                        for (i, x) in fwd.iter().enumerate() { b[x.index()] = i; }
                        json!({"terms": t,
                               "nodes": st.node_indices().map(|i| b[i.index()]).collect::<Vec<_>>(),
                               "edges": st.edge_references().map(|e| json!([b[e.source().index()], b[e.target().index()], *e.weight()])).collect::<Vec<_>>()})
                    }).collect::<Vec<_>>())));
                }
                f
            });
            r2.next();
        }
    }
    if ag.directed {
        let mut r2 = rng.clone();
        let mut prref: Option<Vec<i64>> = None;
        each_enc!(out, "C20", ag, rng, [graphd, stabled], |g, fwd, inv| {
            let mut f = Fields::new();
            c20_fas(&g, &inv, &mut f);
            c20_paths(&g, &fwd, &inv, &mut f, &mut r2.clone());
            c20_pagerank(&g, &fwd, &mut f, &mut prref);
            f
        });
        each_enc!(out, "C20", ag, rng, [map, matrixd], |g, fwd, inv| {
            let mut f = Fields::new();
            c20_paths(&g, &fwd, &inv, &mut f, &mut r2.clone());
            c20_pagerank(&g, &fwd, &mut f, &mut prref);
            f
        });
        each_enc!(out, "C20", ag, rng, [csr, list], |g, fwd, _inv| {
            let mut f = Fields::new();
            c20_pagerank(&g, &fwd, &mut f, &mut prref);
            f
        });
        r2.next();
        // transitive reduction / closure of DAGs (Graph only: NodeCompactIndexable with index NodeId)
        let acyclic = { let (g, _) = build_graph::<Directed, i64>(ag, 0, &mut rng.clone()); !algo::is_cyclic_directed(&g) };
        if acyclic && ag.is_simple() {
            each_enc!(out, "C20", ag, rng, [graphd], |g, _fwd, inv| {
                let mut f = Fields::new();
                f.insert("tred".into(), run(|| {
                    let topo = algo::toposort(&g, None).unwrap();
                    let (res, revmap) = algo::tred::dag_to_toposorted_adjacency_list::<_, u32>(&g, &topo);
                    let (tr, tc) = algo::tred::dag_transitive_reduction_closure(&res);
                    let lists = |l: &petgraph::adj::UnweightedList<u32>| (0..l.node_count() as u32).map(|i| l.neighbors(i).map(|x| x as usize).collect::<Vec<_>>()).collect::<Vec<_>>();
                    json!({"topo": topo.iter().map(|x| inv[x]).collect::<Vec<_>>(),
                           "revmap": g.node_indices().map(|i| (inv[&i], revmap[i.index()] as usize)).collect::<std::collections::BTreeMap<_, _>>().values().cloned().collect::<Vec<_>>(),
                           "res": lists(&res), "tred": lists(&tr), "tclos": lists(&tc)})
                }));
                f
            });
        }
    }
}

// ------------------------------------------------------------------------------------------ C08

/// Dfs / Bfs / DfsPostOrder from every start, with move_to continuation and reset
fn c08_walk<G>(g: G, fwd: &[G::NodeId], inv: &std::collections::HashMap<G::NodeId, usize>, f: &mut Fields, rng: &mut Rng, tag: &str)
where
    G: IntoNeighbors + Visitable + Copy,
    G::Map: Default,
    G::NodeId: Eq + std::hash::Hash + Copy,
{
    let n = fwd.len();
    let lim = 4 * n + 8;
    macro_rules! walker { ($W:ident, $name:expr) => {{
        f.insert(format!("{}{}", $name, tag), run(|| json!((0..n).map(|s| {
            let mut w = $W::new(g, fwd[s]);
            let mut seq = vec![];
            while let Some(x) = w.next(g) { seq.push(inv[&x]); if seq.len() > lim { break; } }
            // exhausted: next() keeps returning None
            let again = w.next(g).is_none();
            // continue from another node without forgetting what was discovered
            let t = (s + 1 + (s * 7) % n.max(1)) % n;
            w.move_to(fwd[t]);
            let mut seq2 = vec![];
            while let Some(x) = w.next(g) { seq2.push(inv[&x]); if seq2.len() > lim { break; } }
            // reset: everything forgotten
            w.reset(g);
            w.move_to(fwd[t]);
            let mut seq3 = vec![];
            while let Some(x) = w.next(g) { seq3.push(inv[&x]); if seq3.len() > lim { break; } }
            // a walker whose map was not created from this graph: reset must make it usable
            let mut w4 = $W::empty(g);
            w4.discovered = Default::default();
            w4.reset(g);
            w4.move_to(fwd[s]);
            let mut seq4 = vec![];
            while let Some(x) = w4.next(g) { seq4.push(inv[&x]); if seq4.len() > lim { break; } }
            // the Walker trait: iter() wraps the walker and its context into an Iterator
            let mut it = petgraph::visit::Walker::iter($W::new(g, fwd[s]), g);
            let mut seq5 = vec![];
            while let Some(x) = it.next() { seq5.push(inv[&x]); if seq5.len() > lim { break; } }
            let _ = (it.inner_ref(), it.context());
            json!({"s": s, "seq": seq, "none_again": again, "t": t, "seq2": seq2, "seq3": seq3, "seq4": seq4, "seq5": seq5})
        }).collect::<Vec<_>>())));
    }}}
    walker!(Dfs, "dfs");
    walker!(DfsPostOrder, "dpo");
    // Dfs::move_to in the MIDDLE of a traversal: the discovered map is kept, the pending stack is dropped
    f.insert(format!("dfsmid{}", tag), run(|| json!((0..n).map(|s| {
        let k = 1 + (s * 5) % 3;
        let t = (s + 2 + (s * 3) % n.max(1)) % n;
        let mut w = Dfs::new(g, fwd[s]);
        let mut pre = vec![];
        for _ in 0..k { match w.next(g) { Some(x) => pre.push(inv[&x]), None => break } }
        w.move_to(fwd[t]);
        let mut post = vec![];
        while let Some(x) = w.next(g) { post.push(inv[&x]); if post.len() > lim { break; } }
        // reset in the MIDDLE of a traversal clears the whole visit state: map AND pending stack, so the walker is
        // empty afterwards; seeding the public stack then starts a traversal that knows nothing of the old one
        let mut w2 = Dfs::new(g, fwd[s]);
        for _ in 0..k { if w2.next(g).is_none() { break; } }
        w2.reset(g);
        let pending = w2.stack.len();
        let mut rrest = vec![];
        while let Some(x) = w2.next(g) { rrest.push(inv[&x]); if rrest.len() > lim { break; } }
        let mut w3 = Dfs::new(g, fwd[s]);
        for _ in 0..k { if w3.next(g).is_none() { break; } }
        w3.reset(g);
        w3.stack.push(fwd[t]);
        let mut rseed = vec![];
        while let Some(x) = w3.next(g) { rseed.push(inv[&x]); if rseed.len() > lim { break; } }
        let mut w4 = DfsPostOrder::new(g, fwd[s]);
        for _ in 0..k { if w4.next(g).is_none() { break; } }
        w4.reset(g);
        w4.stack.push(fwd[t]);
        let mut pseed = vec![];
        while let Some(x) = w4.next(g) { pseed.push(inv[&x]); if pseed.len() > lim { break; } }
        json!({"s": s, "t": t, "pre": pre, "post": post, "pending": pending, "rrest": rrest, "rseed": rseed, "pseed": pseed})
    }).collect::<Vec<_>>())));
    // Bfs has no reset/move_to: a fresh walker per start
    f.insert(format!("bfs{}", tag), run(|| json!((0..n).map(|s| {
        let mut w = Bfs::new(g, fwd[s]);
        let mut seq = vec![];
        while let Some(x) = w.next(g) { seq.push(inv[&x]); if seq.len() > lim { break; } }
        let mut it = petgraph::visit::Walker::iter(Bfs::new(g, fwd[s]), g);
        let mut seq5 = vec![];
        while let Some(x) = it.next() { seq5.push(inv[&x]); if seq5.len() > lim { break; } }
        json!({"s": s, "seq": seq, "none_again": w.next(g).is_none(), "seq5": seq5})
    }).collect::<Vec<_>>())));
    // depth_first_search with control scripts
    let mut cases = vec![];
    for k in 0..4 {
        let mut starts: Vec<usize> = (0..n).filter(|_| rng.chance(1, 2)).collect();
        if starts.is_empty() || k == 0 { starts = (0..n).collect(); }
        if k % 2 == 1 { rng.shuffle(&mut starts); }
        // script: (event index -> control), else rule-based pruning on a chosen node
        let prune_node = if k >= 1 { rng.below(n) as i64 } else { -1 };
        let prune_on = *rng.pick(&["D", "T"]);
        let break_at = if k == 3 { rng.below(3 * n + 1) as i64 } else { -1 };
        let finish_prune = k == 2 && rng.chance(1, 6);
        cases.push((starts, prune_node, prune_on, break_at, finish_prune));
    }
    f.insert(format!("dfsv{}", tag), run(|| json!(cases.iter().map(|(starts, prune_node, prune_on, break_at, finish_prune)| {
        let mut evs: Vec<Value> = vec![];
        let res = guard(|| depth_first_search(g, starts.iter().map(|&i| fwd[i]), |e| {
            let k = evs.len() as i64;
            let (kind, a, b): (&str, i64, i64) = match e {
                DfsEvent::Discover(n, t) => ("D", inv[&n] as i64, t.0 as i64),
                DfsEvent::TreeEdge(u, v) => ("T", inv[&u] as i64, inv[&v] as i64),
                DfsEvent::BackEdge(u, v) => ("B", inv[&u] as i64, inv[&v] as i64),
                DfsEvent::CrossForwardEdge(u, v) => ("X", inv[&u] as i64, inv[&v] as i64),
                DfsEvent::Finish(n, t) => ("F", inv[&n] as i64, t.0 as i64),
            };
            let c = if k == *break_at { "B" }
                else if kind == "F" && *finish_prune && a == *prune_node { "P" }
                else if kind == *prune_on && ((kind == "D" && a == *prune_node) || (kind == "T" && b == *prune_node)) { "P" }
                else if (kind == "B" || kind == "X") && b == *prune_node { "P" }   // harmless prune on non-tree edges
                else { "C" };
            evs.push(json!([kind, a, b, c]));
            match c { "B" => Control::Break(k), "P" => Control::Prune, _ => Control::Continue }
        }));
        let r = match res { Ok(Control::Break(k)) => json!(["break", k]), Ok(_) => json!(["done"]), Err(()) => json!(["panic"]) };
        json!({"starts": starts, "evs": evs, "res": r})
    }).collect::<Vec<_>>())));
    f.insert(format!("dfsvr{}", tag), run(|| json!(cases.iter().map(|(starts, prune_node, prune_on, break_at, finish_prune)| {
        let mut evs: Vec<Value> = vec![];
        let res = guard(|| depth_first_search(g, starts.iter().map(|&i| fwd[i]), |e| {
            let k = evs.len() as i64;
            let (kind, a, b): (&str, i64, i64) = match e {
                DfsEvent::Discover(n, t) => ("D", inv[&n] as i64, t.0 as i64),
                DfsEvent::TreeEdge(u, v) => ("T", inv[&u] as i64, inv[&v] as i64),
                DfsEvent::BackEdge(u, v) => ("B", inv[&u] as i64, inv[&v] as i64),
                DfsEvent::CrossForwardEdge(u, v) => ("X", inv[&u] as i64, inv[&v] as i64),
                DfsEvent::Finish(n, t) => ("F", inv[&n] as i64, t.0 as i64),
            };
            let c = if k == *break_at { "B" }
                else if kind == "F" && *finish_prune && a == *prune_node { "P" }
                else if kind == *prune_on && ((kind == "D" && a == *prune_node) || (kind == "T" && b == *prune_node)) { "P" }
                else if (kind == "B" || kind == "X") && b == *prune_node { "P" }   // harmless prune on non-tree edges
                else { "C" };
            evs.push(json!([kind, a, b, c]));
            // the same scripts through the Result<Control, E> visitor return type (its own ControlFlow impl)
            Ok::<Control<i64>, ()>(match c { "B" => Control::Break(k), "P" => Control::Prune, _ => Control::Continue })
        }));
        let r = match res { Ok(Ok(Control::Break(k))) => json!(["break", k]), Ok(Ok(_)) => json!(["done"]), Ok(Err(())) => json!(["err"]), Err(()) => json!(["panic"]) };
        json!({"starts": starts, "evs": evs, "res": r})
    }).collect::<Vec<_>>())));
}

fn c08_topo<G>(g: G, inv: &std::collections::HashMap<G::NodeId, usize>, f: &mut Fields, n: usize, tag: &str)
where
    G: IntoNodeIdentifiers + IntoNeighborsDirected + Visitable + Copy,
    G::NodeId: Eq + std::hash::Hash + Copy,
{
    f.insert(format!("topo{}", tag), run(|| {
        let mut t = Topo::new(g);
        let mut seq = vec![];
        while let Some(x) = t.next(g) { seq.push(inv[&x]); if seq.len() > 4 * n + 8 { break; } }
        let again = t.next(g).is_none();
        t.reset(g);
        let mut seq2 = vec![];
        while let Some(x) = t.next(g) { seq2.push(inv[&x]); if seq2.len() > 4 * n + 8 { break; } }
        json!({"seq": seq, "none_again": again, "seq2": seq2})
    }));
    // Topo::with_initials: start sets with duplicates and with nodes that have incoming edges (to be ignored)
    f.insert(format!("topoi{}", tag), run(|| {
        let all: Vec<G::NodeId> = g.node_identifiers().collect();
        let mut sets: Vec<Vec<G::NodeId>> = vec![];
        for p in 0..2usize {
            let mut v: Vec<G::NodeId> = all.iter().copied().filter(|x| inv[x] % 2 == p).collect();
            if let Some(&first) = v.first() { v.push(first); }
            sets.push(v);
        }
        sets.push(all.iter().chain(all.iter()).copied().collect());
        json!(sets.iter().map(|init| {
            let mut t = Topo::with_initials(g, init.iter().copied());
            let mut seq = vec![];
            while let Some(x) = t.next(g) { seq.push(inv[&x]); if seq.len() > 4 * n + 8 { break; } }
            json!({"init": init.iter().map(|x| inv[x]).collect::<Vec<_>>(), "seq": seq, "none_again": t.next(g).is_none()})
        }).collect::<Vec<_>>())
    }));
}

pub fn c08_graph(out: &mut Out, ag: &AG, rng: &mut Rng) {
    if ag.n == 0 {
        return;
    }
    let d = ag.directed;
    let n = ag.n;
    let r0 = rng.clone();
    each_enc!(out, "C08", ag, rng, [graph, stable, map, matrixd], |g, fwd, inv| {
        let mut f = Fields::new();
        c08_walk(&g, &fwd, &inv, &mut f, &mut r0.clone(), "");
        if d { c08_topo(&g, &inv, &mut f, n, ""); }
        // the same walkers through Reversed: they must walk the reversed graph
        c08_walk(Reversed(&g), &fwd, &inv, &mut f, &mut r0.clone(), "_rev");
        if d { c08_topo(Reversed(&g), &inv, &mut f, n, "_rev"); }
        f
    });
    each_enc!(out, "C08", ag, rng, [matrixu, csr, list], |g, fwd, inv| {
        let mut f = Fields::new();
        c08_walk(&g, &fwd, &inv, &mut f, &mut r0.clone(), "");
        f
    });
    rng.next();
}

pub fn prop_fn(prop: &str) -> fn(&mut Out, &AG, &mut Rng) {
    match prop {
        "C09" => c09_graph,
        "C10" => c10_graph,
        "C11" => c11_graph,
        "C12" => c12_graph,
        "C16" => c16_graph,
        "C15" => c15_graph,
        "C20" => c20_graph,
        "C08" => c08_graph,
        "C06" => crate::views::c06_graph,
        _ => panic!("unknown property {}", prop),
    }
}

/// Re-run one recorded abstract input through every encoding (replay of a rejection).
pub fn replay(prop: &str, seed: u64, recs: &[Value], out: &mut Out) {
    let mut rng = Rng::new(seed);
    for r in recs {
        let ag = AG {
            n: r["n"].as_u64().unwrap() as usize,
            directed: r["dir"].as_bool().unwrap(),
            edges: r["E"].as_array().unwrap().iter().map(|e| (e[0].as_u64().unwrap() as usize, e[1].as_u64().unwrap() as usize, e[2].as_i64().unwrap())).collect(),
        };
        prop_fn(prop)(out, &ag, &mut rng);
    }
}

/// Exhaustive small graphs + seeded random shapes, both edge types.
pub fn wrange(prop: &str) -> (i64, i64) {
    match prop {
        "C10" => (0, 3),
        "C11" => (-3, 4),
        "C15" => (0, 4),
        "C12" => (1, 3),
        _ => (1, 5),
    }
}

pub fn sweep(prop: &str, seed: u64, exhaustive_n: usize, random: usize, nmax: usize, out: &mut Out) {
    let mut rng = Rng::new(seed);
    let (wlo, whi) = wrange(prop);
    let f0 = prop_fn(prop);
    // sidecar: the abstract graph whose records are being computed (if the code under test kills or hangs the process,
    // the check turns this into a violation instead of a tool error)
    let f = |out: &mut Out, ag: &AG, rng: &mut Rng| {
        out.log.about_to(&json!({"prop": prop, "n": ag.n, "dir": ag.directed, "E": ag.edges_json()}));
        f0(out, ag, rng)
    };
    for directed in [true, false] {
        for n in 0..=exhaustive_n {
            // all graphs with self-loops and up to 2 parallel edges for n <= 2, simple (+loops) for n = 3
            let mult = if n <= 2 { 3 } else { 1 };
            let space = code_space(n, directed, true, mult);
            let stride = if space > 5000 { (space / 3000).max(1) } else { 1 };
            let mut code = 0;
            while code < space {
                let mut wr = rng.clone();
                let ag = graph_by_code(n, directed, true, mult, code, &mut || wr.range(wlo, whi));
                rng.next();
                f(out, &ag, &mut rng);
                code += if stride == 1 { 1 } else { 1 + rng.below(2 * stride as usize) as u64 };
            }
        }
        for _ in 0..random {
            let ag = random_ag(&mut rng, nmax, directed, wlo, whi, true, true);
            f(out, &ag, &mut rng);
        }
        if prop == "C16" && !directed {
            for _ in 0..3 * random {
                let ag = cactus_ag(&mut rng);
                f(out, &ag, &mut rng);
            }
        }
        if prop == "C16" && directed {
            ROOT0_ONLY.with(|c| c.set(true));
            for k in 0..6 * random {
                let ag = if k % 3 == 0 { flowgraph_ag(&mut rng) } else { irreducible_ag(&mut rng) };
                f(out, &ag, &mut rng);
            }
            ROOT0_ONLY.with(|c| c.set(false));
        }
        if prop == "C15" {
            for _ in 0..(if directed { random } else { 12 * random }) {
                let ag = if directed { layered_flow_ag(&mut rng) } else { blossom_ag(&mut rng) };
                f(out, &ag, &mut rng);
            }
            if !directed {
                for _ in 0..5 * random {
                    let ag = blossom_big_ag(&mut rng);
                    f(out, &ag, &mut rng);
                }
            }
        }
        if prop == "C12" && !directed {
            // one component of more than 256 nodes absorbed set by set into one representative (a star, then a path):
            // the union-find behind Kruskal must survive more unions than a u8 can count
            for shape in 0..2 {
                let n = 300;
                let edges = (1..n).map(|i| (if shape == 0 { 0 } else { i - 1 }, i, 1 + (i as i64 * 7) % 5)).collect();
                f(out, &AG { n, directed, edges }, &mut rng);
            }
        }
        if prop == "C10" {
            // wide weight ranges and many heuristics per graph: the order in which A* expands nodes then depends on
            // the estimates, not only on the path costs
            for _ in 0..random {
                let n = 4 + rng.below(nmax.saturating_sub(3).max(1));
                let ag = random_ag(&mut rng, n, directed, 1, 30, false, true);
                f(out, &ag, &mut rng);
            }
        }
        if prop == "C10" {
            // re-expansion diamonds: S reaches X directly (w1) and, delta cheaper, through Y; X is under-estimated just
            // enough to be expanded first over the direct edge, everything else is estimated exactly, so that X has
            // to be expanded a second time when Y improves it - with an estimate of X that is at least delta
            for _ in 0..(random / 4).max(6) {
                let delta = 1 + rng.below(3) as i64;
                let (a, b) = (1 + rng.below(4) as i64, 1 + rng.below(4) as i64);
                let w1 = a + b + delta;
                let l = 1 + rng.below(3);
                let n = 3 + l + rng.below(3);
                let mut name: Vec<usize> = (0..n).collect();
                rng.shuffle(&mut name);
                let (s, y, x) = (name[0], name[1], name[2]);
                let mut edges = vec![(s, x, w1), (s, y, a), (y, x, b)];
                let mut prev = x;
                for k in 0..l {
                    edges.push((prev, name[3 + k], 2 * delta + 1 + rng.below(6) as i64));
                    prev = name[3 + k];
                }
                let t = prev;
                for _ in 0..rng.below(3) {
                    edges.push((rng.below(n), rng.below(n), 25 + rng.below(6) as i64));
                }
                rng.shuffle(&mut edges);
                let ag = AG { n, directed, edges };
                let exact = abstract_dist_to(&ag, &[t]);
                let mut h: Vec<i64> = exact.iter().map(|&d| if d >= INF { 7 } else { d }).collect();
                if exact[x] < INF {
                    let hx = delta + rng.below((exact[x] - 2 * delta).max(1) as usize) as i64;
                    h[x] = hx.min(exact[x]);
                }
                ASTAR_HINT.with(|c| *c.borrow_mut() = Some((s, vec![t], h)));
                f(out, &ag, &mut rng);
                ASTAR_HINT.with(|c| *c.borrow_mut() = None);
            }
        }
        if prop == "C09" || prop == "C12" {
            for k in 0..(random / 10).max(4) {
                let ag = binomial_ag(&mut rng, 2 + (k % 3) as u32, directed, k % 2);
                f(out, &ag, &mut rng);
            }
        }
    }
}
