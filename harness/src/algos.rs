//! R3: run petgraph's algorithms on every encoding of an abstract graph and record
//! (input, encoding, outputs) for the TLA+ oracles.  Outputs are mapped back to abstract
//! node ids; a panic is recorded as ["panic"] (it is data for the oracle).
use crate::common::*;
use crate::enc::*;
use petgraph::algo;
use petgraph::visit::*;
use petgraph::{Directed, Undirected};
use serde_json::{json, Value};

pub fn okv(v: Value) -> Value {
    json!(["ok", v])
}
/// run, catching panics
pub fn run(f: impl FnOnce() -> Value) -> Value {
    match guard(f) {
        Ok(v) => okv(v),
        Err(()) => json!(["panic"]),
    }
}

pub struct Out<'a> {
    pub log: &'a mut Log,
    pub matrix: std::collections::BTreeMap<String, usize>, // applicability: "algo/enc" -> runs
}
impl<'a> Out<'a> {
    pub fn rec(&mut self, prop: &str, enc: &str, hist: &str, ag: &AG, mut fields: serde_json::Map<String, Value>) {
        for k in fields.keys() {
            *self.matrix.entry(format!("{}/{}", k, enc)).or_insert(0) += 1;
        }
        fields.insert("prop".into(), json!(prop));
        fields.insert("enc".into(), json!(enc));
        fields.insert("hist".into(), json!(hist));
        fields.insert("n".into(), json!(ag.n));
        fields.insert("dir".into(), json!(ag.directed));
        fields.insert("E".into(), ag.edges_json());
        self.log.ev(Value::Object(fields));
    }
}

/// Expand `$body` (which must evaluate to serde_json::Map of fields) once per encoding x history.
/// Inside, `$g` is the container, `$fwd[i]` the container id of abstract node i, `$inv` the inverse.
#[macro_export]
macro_rules! each_enc {
    ($out:expr, $prop:expr, $ag:expr, $rng:expr, [$($enc:ident),*], |$g:ident, $fwd:ident, $inv:ident| $body:expr) => {{
        $( each_enc!(@one $enc, $out, $prop, $ag, $rng, |$g, $fwd, $inv| $body); )*
    }};
    (@emit $out:expr, $prop:expr, $ag:expr, $ename:expr, $h:expr, $build:expr, |$g:ident, $fwd:ident, $inv:ident| $body:expr) => {{
        let ($g, $fwd) = $build;
        let $inv = inv_of(&$fwd);
        let fields = $body;
        $out.rec($prop, $ename, HISTS[$h], $ag, fields);
    }};
    (@one graph, $out:expr, $prop:expr, $ag:expr, $rng:expr, |$g:ident, $fwd:ident, $inv:ident| $body:expr) => {
        for h in 0..3 {
            if $ag.directed { each_enc!(@emit $out, $prop, $ag, "graph", h, build_graph::<Directed>($ag, h, $rng), |$g, $fwd, $inv| $body) }
            else { each_enc!(@emit $out, $prop, $ag, "graph", h, build_graph::<Undirected>($ag, h, $rng), |$g, $fwd, $inv| $body) }
        }
    };
    (@one stable, $out:expr, $prop:expr, $ag:expr, $rng:expr, |$g:ident, $fwd:ident, $inv:ident| $body:expr) => {
        for h in 0..3 {
            if $ag.directed { each_enc!(@emit $out, $prop, $ag, "stable", h, build_stable::<Directed>($ag, h, $rng), |$g, $fwd, $inv| $body) }
            else { each_enc!(@emit $out, $prop, $ag, "stable", h, build_stable::<Undirected>($ag, h, $rng), |$g, $fwd, $inv| $body) }
        }
    };
    (@one matrixd, $out:expr, $prop:expr, $ag:expr, $rng:expr, |$g:ident, $fwd:ident, $inv:ident| $body:expr) => {
        if $ag.is_simple() && $ag.directed {
            for h in 0..3 {
                each_enc!(@emit $out, $prop, $ag, "matrix", h, build_matrix::<Directed>($ag, h, $rng), |$g, $fwd, $inv| $body)
            }
        }
    };
    (@one matrixu, $out:expr, $prop:expr, $ag:expr, $rng:expr, |$g:ident, $fwd:ident, $inv:ident| $body:expr) => {
        if $ag.is_simple() && !$ag.directed {
            for h in 0..3 {
                each_enc!(@emit $out, $prop, $ag, "matrix", h, build_matrix::<Undirected>($ag, h, $rng), |$g, $fwd, $inv| $body)
            }
        }
    };
    (@one map, $out:expr, $prop:expr, $ag:expr, $rng:expr, |$g:ident, $fwd:ident, $inv:ident| $body:expr) => {
        if $ag.is_simple() {
            for h in 0..3 {
                if $ag.directed { each_enc!(@emit $out, $prop, $ag, "map", h, build_map::<Directed>($ag, h, $rng), |$g, $fwd, $inv| $body) }
                else { each_enc!(@emit $out, $prop, $ag, "map", h, build_map::<Undirected>($ag, h, $rng), |$g, $fwd, $inv| $body) }
            }
        }
    };
    (@one csr, $out:expr, $prop:expr, $ag:expr, $rng:expr, |$g:ident, $fwd:ident, $inv:ident| $body:expr) => {
        if $ag.is_simple() {
            for h in 0..2 {
                if $ag.directed { each_enc!(@emit $out, $prop, $ag, "csr", h, build_csr::<Directed>($ag, h, $rng), |$g, $fwd, $inv| $body) }
                else { each_enc!(@emit $out, $prop, $ag, "csr", h, build_csr::<Undirected>($ag, h, $rng), |$g, $fwd, $inv| $body) }
            }
        }
    };
    (@one list, $out:expr, $prop:expr, $ag:expr, $rng:expr, |$g:ident, $fwd:ident, $inv:ident| $body:expr) => {
        if $ag.directed {
            for h in 0..2 {
                each_enc!(@emit $out, $prop, $ag, "list", h, build_list($ag, h, $rng), |$g, $fwd, $inv| $body)
            }
        }
    };
}

pub type Fields = serde_json::Map<String, Value>;

// ------------------------------------------------------------------------------------------ C09

fn sccs_json<N: Copy + Eq + std::hash::Hash>(s: Vec<Vec<N>>, inv: &std::collections::HashMap<N, usize>) -> Value {
    json!(s.iter().map(|c| c.iter().map(|x| inv[x]).collect::<Vec<_>>()).collect::<Vec<_>>())
}

/// algorithms with the weakest bounds: every encoding
fn c09_weak<G>(g: G, fwd: &[G::NodeId], inv: &std::collections::HashMap<G::NodeId, usize>, f: &mut Fields, directed: bool)
where
    G: IntoNeighbors + IntoNodeIdentifiers + Visitable + NodeIndexable + IntoEdgeReferences + Copy,
    G::NodeId: Eq + std::hash::Hash + std::fmt::Debug,
{
    f.insert("tar".into(), run(|| sccs_json(algo::tarjan_scc(g), inv)));
    f.insert("trun".into(), run(|| {
        let mut t = algo::TarjanScc::new();
        let mut sccs = vec![];
        t.run(g, |c| sccs.push(c.to_vec()));
        // run twice on the same object: it must reset itself
        let mut sccs2 = vec![];
        t.run(g, |c| sccs2.push(c.to_vec()));
        let cidx: Vec<usize> = fwd.iter().map(|&v| t.node_component_index(g, v)).collect();
        json!({"sccs": sccs_json(sccs2, inv), "cidx": cidx, "first": sccs_json(sccs, inv)})
    }));
    let n = fwd.len();
    f.insert("hp".into(), run(|| json!((0..n).map(|a| (0..n).map(|b| algo::has_path_connecting(g, fwd[a], fwd[b], None)).collect::<Vec<_>>()).collect::<Vec<_>>())));
    f.insert("hp2".into(), run(|| {
        let mut space = algo::DfsSpace::new(g);
        json!((0..n).map(|a| (0..n).map(|b| algo::has_path_connecting(g, fwd[a], fwd[b], Some(&mut space))).collect::<Vec<_>>()).collect::<Vec<_>>())
    }));
    f.insert("cycu".into(), run(|| json!(algo::is_cyclic_undirected(g))));
    if directed {
        f.insert("cycd".into(), run(|| json!(algo::is_cyclic_directed(g))));
    } else {
        f.insert("bip".into(), run(|| json!((0..n).map(|s| algo::is_bipartite_undirected(g, fwd[s])).collect::<Vec<_>>())));
    }
}

/// algorithms that need IntoNeighborsDirected
fn c09_nd<G>(g: G, fwd: &[G::NodeId], inv: &std::collections::HashMap<G::NodeId, usize>, f: &mut Fields, directed: bool)
where
    G: IntoNeighborsDirected + IntoNodeIdentifiers + Visitable + Copy,
    G::NodeId: Eq + std::hash::Hash + std::fmt::Debug,
{
    let n = fwd.len();
    f.insert("kos".into(), run(|| sccs_json(algo::kosaraju_scc(g), inv)));
    if directed {
        let topo = |space: Option<&mut algo::DfsSpace<G::NodeId, G::Map>>| match algo::toposort(g, space) {
            Ok(o) => json!(["order", o.iter().map(|x| inv[x]).collect::<Vec<_>>()]),
            Err(c) => json!(["cycle", inv[&c.node_id()]]),
        };
        f.insert("topo".into(), run(|| topo(None)));
        f.insert("topo2".into(), run(|| {
            let mut space = algo::DfsSpace::new(g);
            let _ = algo::has_path_connecting(g, fwd[0], fwd[n - 1], Some(&mut space)); // dirty the workspace
            let a = topo(Some(&mut space));
            let b = topo(Some(&mut space));
            assert_eq!(a, b);
            b
        }));
    }
}

fn c09_compact<G>(g: G, f: &mut Fields)
where
    G: NodeCompactIndexable + IntoEdgeReferences + Copy,
{
    f.insert("cc".into(), run(|| json!(algo::connected_components(g))));
}

fn c09_cond<Ty: petgraph::EdgeType>(g: &petgraph::Graph<i32, i64, Ty, u32>, f: &mut Fields) {
    for (name, acyc) in [("cond", false), ("conda", true)] {
        let h = g.clone();
        f.insert(name.into(), run(|| {
            let c = algo::condensation(h, acyc);
            json!({
                "nodes": c.node_weights().map(|ws| ws.iter().map(|&w| w as usize).collect::<Vec<_>>()).collect::<Vec<_>>(),
                "edges": c.edge_references().map(|e| json!([e.source().index() + 1, e.target().index() + 1, *e.weight()])).collect::<Vec<_>>(),
            })
        }));
    }
}

pub fn c09_graph(out: &mut Out, ag: &AG, rng: &mut Rng) {
    if ag.n == 0 {
        return;
    }
    let d = ag.directed;
    each_enc!(out, "C09", ag, rng, [graph], |g, fwd, inv| {
        let mut f = Fields::new();
        c09_weak(&g, &fwd, &inv, &mut f, d);
        c09_nd(&g, &fwd, &inv, &mut f, d);
        c09_compact(&g, &mut f);
        c09_cond(&g, &mut f);
        f
    });
    each_enc!(out, "C09", ag, rng, [stable, map, matrixd], |g, fwd, inv| {
        let mut f = Fields::new();
        c09_weak(&g, &fwd, &inv, &mut f, d);
        c09_nd(&g, &fwd, &inv, &mut f, d);
        f
    });
    each_enc!(out, "C09", ag, rng, [matrixu], |g, fwd, inv| {
        let mut f = Fields::new();
        c09_weak(&g, &fwd, &inv, &mut f, d);
        f
    });
    each_enc!(out, "C09", ag, rng, [csr, list], |g, fwd, inv| {
        let mut f = Fields::new();
        c09_weak(&g, &fwd, &inv, &mut f, d);
        c09_compact(&g, &mut f);
        f
    });
}

// ------------------------------------------------------------------------------------------
// input sweeps

pub fn prop_fn(prop: &str) -> fn(&mut Out, &AG, &mut Rng) {
    match prop {
        "C09" => c09_graph,
        _ => panic!("unknown property {}", prop),
    }
}

/// Re-run one recorded abstract input through every encoding (replay of a rejection).
pub fn replay(prop: &str, seed: u64, recs: &[Value], out: &mut Out) {
    let mut rng = Rng::new(seed);
    for r in recs {
        let ag = AG {
            n: r["n"].as_u64().unwrap() as usize,
            directed: r["dir"].as_bool().unwrap(),
            edges: r["E"].as_array().unwrap().iter().map(|e| (e[0].as_u64().unwrap() as usize, e[1].as_u64().unwrap() as usize, e[2].as_i64().unwrap())).collect(),
        };
        prop_fn(prop)(out, &ag, &mut rng);
    }
}

/// Exhaustive small graphs + seeded random shapes, both edge types.
pub fn sweep(prop: &str, seed: u64, exhaustive_n: usize, random: usize, nmax: usize, out: &mut Out) {
    let mut rng = Rng::new(seed);
    let f = prop_fn(prop);
    for directed in [true, false] {
        for n in 1..=exhaustive_n {
            // all graphs with self-loops and up to 2 parallel edges for n <= 2, simple (+loops) for n = 3
            let mult = if n <= 2 { 2 } else { 1 };
            let space = code_space(n, directed, true, mult);
            let stride = if space > 5000 { (space / 3000).max(1) } else { 1 };
            let mut code = 0;
            while code < space {
                let mut k = 0;
                let ag = graph_by_code(n, directed, true, mult, code, &mut || { k += 1; k });
                f(out, &ag, &mut rng);
                code += if stride == 1 { 1 } else { 1 + rng.below(2 * stride as usize) as u64 };
            }
        }
        for _ in 0..random {
            let ag = random_ag(&mut rng, nmax, directed, 1, 5, true, true);
            f(out, &ag, &mut rng);
        }
        if prop == "C09" || prop == "C12" {
            for k in 0..(random / 10).max(4) {
                let ag = binomial_ag(&mut rng, 2 + (k % 3) as u32, directed, k % 2);
                f(out, &ag, &mut rng);
            }
        }
    }
}
