//! C06: every graph type and adaptor seen through the `visit` traits.  For each encoding x history of an
//! abstract graph and each adaptor stack, every trait method the type implements is called and its
//! result recorded (node ids mapped back to abstract ids); OracleC06.tla checks that they all describe
//! the same (transformed) abstract graph.
use crate::algos::*;
use crate::common::*;
use crate::each_enc;
use crate::enc::*;
use petgraph::visit::*;
use petgraph::Direction::{Incoming, Outgoing};
use petgraph::{Directed, Undirected};
use serde_json::{json, Value};
use std::collections::HashMap;
use std::hash::Hash;

type Inv<N> = HashMap<N, usize>;
fn id<N: Copy + Eq + Hash>(inv: &Inv<N>, x: N) -> i64 {
    inv.get(&x).map(|&i| i as i64).unwrap_or(-9)
}

pub fn v_nodes<G: IntoNodeIdentifiers>(g: G, inv: &Inv<G::NodeId>, f: &mut Fields)
where
    G::NodeId: Copy + Eq + Hash,
{
    f.insert("nodes".into(), run(|| json!(g.node_identifiers().map(|x| id(inv, x)).collect::<Vec<_>>())));
}
pub fn v_noderefs<G: IntoNodeReferences>(g: G, inv: &Inv<G::NodeId>, f: &mut Fields)
where
    G::NodeId: Copy + Eq + Hash,
{
    f.insert("noderefs".into(), run(|| json!(g.node_references().map(|r| id(inv, r.id())).collect::<Vec<_>>())));
}
pub fn v_edgerefs<G: IntoEdgeReferences>(g: G, inv: &Inv<G::NodeId>, f: &mut Fields)
where
    G::NodeId: Copy + Eq + Hash,
    G::EdgeWeight: EW,
{
    f.insert("erefs".into(), run(|| json!(g.edge_references().map(|e| json!([id(inv, e.source()), id(inv, e.target()), e.weight().to_i64()])).collect::<Vec<_>>())));
}
pub fn v_counts_n<G: NodeCount>(g: G, f: &mut Fields) {
    f.insert("nc".into(), run(|| json!(g.node_count())));
}
pub fn v_counts_e<G: EdgeCount>(g: G, f: &mut Fields) {
    f.insert("ec".into(), run(|| json!(g.edge_count())));
}
pub fn v_index<G: NodeIndexable>(g: G, fwd: &[G::NodeId], inv: &Inv<G::NodeId>, f: &mut Fields)
where
    G::NodeId: Copy + Eq + Hash,
{
    f.insert("index".into(), run(|| json!({"bound": g.node_bound(),
        "to": fwd.iter().map(|&v| g.to_index(v)).collect::<Vec<_>>(),
        "back": fwd.iter().map(|&v| id(inv, g.from_index(g.to_index(v)))).collect::<Vec<_>>()})));
}
pub fn v_compact<G: NodeCompactIndexable>(_g: G, f: &mut Fields) {
    f.insert("compact".into(), okv(json!(true)));
}
pub fn v_nbr<G: IntoNeighbors>(g: G, fwd: &[G::NodeId], inv: &Inv<G::NodeId>, f: &mut Fields)
where
    G::NodeId: Copy + Eq + Hash,
{
    f.insert("nbr".into(), run(|| json!(fwd.iter().map(|&a| g.neighbors(a).map(|x| id(inv, x)).collect::<Vec<_>>()).collect::<Vec<_>>())));
}
pub fn v_nbrd<G: IntoNeighborsDirected>(g: G, fwd: &[G::NodeId], inv: &Inv<G::NodeId>, f: &mut Fields)
where
    G::NodeId: Copy + Eq + Hash,
{
    f.insert("nbr_out".into(), run(|| json!(fwd.iter().map(|&a| g.neighbors_directed(a, Outgoing).map(|x| id(inv, x)).collect::<Vec<_>>()).collect::<Vec<_>>())));
    f.insert("nbr_in".into(), run(|| json!(fwd.iter().map(|&a| g.neighbors_directed(a, Incoming).map(|x| id(inv, x)).collect::<Vec<_>>()).collect::<Vec<_>>())));
}
pub fn v_edges<G: IntoEdges>(g: G, fwd: &[G::NodeId], inv: &Inv<G::NodeId>, f: &mut Fields)
where
    G::NodeId: Copy + Eq + Hash,
    G::EdgeWeight: EW,
{
    f.insert("edges".into(), run(|| json!(fwd.iter().map(|&a| g.edges(a).map(|e| json!([id(inv, e.source()), id(inv, e.target()), e.weight().to_i64()])).collect::<Vec<_>>()).collect::<Vec<_>>())));
    // edge identity: every edge listed at a node is one of the edge_references (same id), with the same endpoints and
    // weight; [position in edge_references or -1, same endpoints (unordered) and weight]
    f.insert("eids".into(), run(|| {
        let refs: Vec<(G::EdgeId, i64, i64, i64)> = g.edge_references().map(|r| (r.id(), id(inv, r.source()), id(inv, r.target()), r.weight().to_i64())).collect();
        json!(fwd.iter().map(|&a| {
            let row: Vec<G::EdgeId> = g.edges(a).map(|e| e.id()).collect();
            g.edges(a).enumerate().map(|(j, e)| {
                let (s, t, w) = (id(inv, e.source()), id(inv, e.target()), e.weight().to_i64());
                let dup = row[..j].iter().any(|x| *x == e.id());      // the same id twice in one row
                match refs.iter().position(|r| r.0 == e.id()) {
                    Some(k) => json!([k, ((refs[k].1, refs[k].2) == (s, t) || (refs[k].1, refs[k].2) == (t, s)) && refs[k].3 == w, dup]),
                    None => json!([-1, false, dup]),
                }
            }).collect::<Vec<_>>()
        }).collect::<Vec<_>>())
    }));
}
pub fn v_edgesd<G: IntoEdgesDirected>(g: G, fwd: &[G::NodeId], inv: &Inv<G::NodeId>, f: &mut Fields)
where
    G::NodeId: Copy + Eq + Hash,
    G::EdgeWeight: EW,
{
    f.insert("edges_out".into(), run(|| json!(fwd.iter().map(|&a| g.edges_directed(a, Outgoing).map(|e| json!([id(inv, e.source()), id(inv, e.target()), e.weight().to_i64()])).collect::<Vec<_>>()).collect::<Vec<_>>())));
    f.insert("edges_in".into(), run(|| json!(fwd.iter().map(|&a| g.edges_directed(a, Incoming).map(|e| json!([id(inv, e.source()), id(inv, e.target()), e.weight().to_i64()])).collect::<Vec<_>>()).collect::<Vec<_>>())));
}
pub fn v_adj<G: GetAdjacencyMatrix>(g: G, fwd: &[G::NodeId], f: &mut Fields)
where
    G::NodeId: Copy,
{
    f.insert("adj".into(), run(|| {
        let m = g.adjacency_matrix();
        json!(fwd.iter().map(|&a| fwd.iter().map(|&b| g.is_adjacent(&m, a, b)).collect::<Vec<_>>()).collect::<Vec<_>>())
    }));
}
pub fn v_prop<G: GraphProp>(g: G, f: &mut Fields) {
    f.insert("is_directed".into(), okv(json!(g.is_directed())));
}

/// call the listed capability probes on `$g`
macro_rules! caps {
    ($g:expr, $fwd:expr, $inv:expr, $f:expr, [$($c:ident),*]) => {{ $( caps!(@one $c, $g, $fwd, $inv, $f); )* }};
    (@one nodes, $g:expr, $fwd:expr, $inv:expr, $f:expr) => { v_nodes($g, $inv, $f) };
    (@one noderefs, $g:expr, $fwd:expr, $inv:expr, $f:expr) => { v_noderefs($g, $inv, $f) };
    (@one erefs, $g:expr, $fwd:expr, $inv:expr, $f:expr) => { v_edgerefs($g, $inv, $f) };
    (@one nc, $g:expr, $fwd:expr, $inv:expr, $f:expr) => { v_counts_n($g, $f) };
    (@one ec, $g:expr, $fwd:expr, $inv:expr, $f:expr) => { v_counts_e($g, $f) };
    (@one index, $g:expr, $fwd:expr, $inv:expr, $f:expr) => { v_index($g, $fwd, $inv, $f) };
    (@one compact, $g:expr, $fwd:expr, $inv:expr, $f:expr) => { v_compact($g, $f) };
    (@one nbr, $g:expr, $fwd:expr, $inv:expr, $f:expr) => { v_nbr($g, $fwd, $inv, $f) };
    (@one nbrd, $g:expr, $fwd:expr, $inv:expr, $f:expr) => { v_nbrd($g, $fwd, $inv, $f) };
    (@one edges, $g:expr, $fwd:expr, $inv:expr, $f:expr) => { v_edges($g, $fwd, $inv, $f) };
    (@one edgesd, $g:expr, $fwd:expr, $inv:expr, $f:expr) => { v_edgesd($g, $fwd, $inv, $f) };
    (@one adj, $g:expr, $fwd:expr, $inv:expr, $f:expr) => { v_adj($g, $fwd, $f) };
    (@one prop, $g:expr, $fwd:expr, $inv:expr, $f:expr) => { v_prop($g, $f) };
}

/// emit one record per adaptor stack over `$g` (a reference to the container)
macro_rules! adaptor_views {
    ($out:expr, $ag:expr, $enc:expr, $hist:expr, $g:expr, $fwd:expr, $inv:expr, full: [$($full:ident),*], filt_nodes: [$($fnc:ident),*], filt_edges: [$($fec:ident),*], rev: [$($rc:ident),*], und: [$($uc:ident),*]) => {{
        let g = $g;
        let fwd = &$fwd;
        let inv = &$inv;
        let mut emit = |name: &str, pred: Value, f: Fields| {
            let mut f = f;
            f.insert("adaptor".into(), json!(name));
            f.insert("pred".into(), pred);
            $out.rec("C06", $enc, $hist, $ag, f);
        };
        // the type itself (through & delegation)
        { let mut f = Fields::new(); caps!(g, fwd, inv, &mut f, [$($full),*]); emit("id", json!({}), f); }
        // Reversed
        { let mut f = Fields::new(); caps!(Reversed(g), fwd, inv, &mut f, [$($rc),*]); emit("rev", json!({}), f); }
        { let mut f = Fields::new(); caps!(Reversed(Reversed(g)), fwd, inv, &mut f, [$($rc),*]); emit("rev_rev", json!({}), f); }
        // UndirectedAdaptor
        { let mut f = Fields::new(); caps!(UndirectedAdaptor(g), fwd, inv, &mut f, [$($uc),*]); emit("und", json!({}), f); }
        // NodeFiltered by parity of the abstract id, EdgeFiltered by weight threshold
        for p in 0..2usize {
            let keep = |n| inv.get(&n).map(|&i| i % 2 == p).unwrap_or(false);
            let nf = NodeFiltered::from_fn(g, keep);
            { let mut f = Fields::new(); caps!(&nf, fwd, inv, &mut f, [$($fnc),*]); emit("nf", json!({"parity": p}), f); }
            { let mut f = Fields::new(); caps!(Reversed(&nf), fwd, inv, &mut f, [nbr, nbrd]); emit("rev_nf", json!({"parity": p}), f); }
            let nf2 = NodeFiltered::from_fn(Reversed(g), keep);
            { let mut f = Fields::new(); caps!(&nf2, fwd, inv, &mut f, [nodes, nbr, nbrd]); emit("nf_rev", json!({"parity": p}), f); }
        }
        for th in [2i64, 4] {
            let ef = EdgeFiltered::from_fn(g, |e| e.weight().to_i64() >= th);
            { let mut f = Fields::new(); caps!(&ef, fwd, inv, &mut f, [$($fec),*]); emit("ef", json!({"min_w": th}), f); }
            { let mut f = Fields::new(); caps!(Reversed(&ef), fwd, inv, &mut f, [nbr, nbrd, edges, edgesd]); emit("rev_ef", json!({"min_w": th}), f); }
            let ef2 = EdgeFiltered::from_fn(Reversed(g), |e| e.weight().to_i64() >= th);
            { let mut f = Fields::new(); caps!(&ef2, fwd, inv, &mut f, [nodes, nbr, nbrd, edges, edgesd]); emit("ef_rev", json!({"min_w": th}), f); }
            let keep = |n| inv.get(&n).map(|&i| i % 2 == 0).unwrap_or(false);
            let both = NodeFiltered::from_fn(&ef, keep);
            { let mut f = Fields::new(); caps!(&both, fwd, inv, &mut f, [nodes, nbr, nbrd, edges, edgesd]); emit("nf_ef", json!({"parity": 0, "min_w": th}), f); }
        }
    }};
}

pub fn c06_graph(out: &mut Out, ag: &AG, rng: &mut Rng) {
    if ag.n == 0 {
        return;
    }
    for h in 0..3 {
        macro_rules! indexed { ($build:ident, $Ty:ty, $enc:expr) => {{
            let (g, fwd) = $build::<$Ty, i64>(ag, h, rng);
            let inv = inv_of(&fwd);
            adaptor_views!(out, ag, $enc, HISTS[h], &g, fwd, inv,
                full: [nodes, noderefs, erefs, nc, ec, index, nbr, nbrd, edges, edgesd, adj, prop],
                filt_nodes: [nodes, noderefs, erefs, index, nbr, nbrd, edges, edgesd, prop],
                filt_edges: [nodes, noderefs, erefs, nc, index, nbr, nbrd, edges, edgesd, prop],
                rev: [nodes, noderefs, erefs, nc, ec, index, nbr, nbrd, edges, edgesd, adj, prop],
                und: [nodes, noderefs, erefs, nc, index, nbr, edges, prop]);
            // Frozen (needs &mut): the identical graph
            let mut g2 = g;
            let fz = petgraph::graph::Frozen::new(&mut g2);
            let mut f = Fields::new();
            // Frozen's own trait impls (NodeCount, EdgeCount, NodeIndexable, GetAdjacencyMatrix, GraphProp)
            // and everything else through its Deref to the graph
            caps!(&fz, &fwd, &inv, &mut f, [nc, ec, index, adj, prop]);
            caps!(&*fz, &fwd, &inv, &mut f, [nodes, noderefs, erefs, nbr, nbrd, edges, edgesd]);
            f.insert("adaptor".into(), json!("frozen"));
            f.insert("pred".into(), json!({}));
            out.rec("C06", $enc, HISTS[h], ag, f);
        }}}
        if ag.directed { indexed!(build_graph, Directed, "graph"); indexed!(build_stable, Directed, "stable"); }
        else { indexed!(build_graph, Undirected, "graph"); indexed!(build_stable, Undirected, "stable"); }
    }
    if ag.is_simple() {
        for h in 0..3 {
            macro_rules! mapenc { ($Ty:ty) => {{
                let (g, fwd) = build_map::<$Ty, i64>(ag, h, rng);
                let inv = inv_of(&fwd);
                adaptor_views!(out, ag, "map", HISTS[h], &g, fwd, inv,
                    full: [nodes, noderefs, erefs, nc, ec, index, compact, nbr, nbrd, edges, edgesd, adj, prop],
                    filt_nodes: [nodes, noderefs, erefs, index, nbr, nbrd, edges, edgesd, prop],
                    filt_edges: [nodes, noderefs, erefs, nc, index, nbr, nbrd, edges, edgesd, prop],
                    rev: [nodes, noderefs, erefs, nc, ec, index, nbr, nbrd, edges, edgesd, adj, prop],
                    und: [nodes, noderefs, erefs, nc, index, nbr, edges, prop]);
            }}}
            if ag.directed { mapenc!(Directed); } else { mapenc!(Undirected); }
            if ag.directed {
                let (g, fwd) = build_matrix::<Directed, i64>(ag, h, rng);
                let inv = inv_of(&fwd);
                adaptor_views!(out, ag, "matrix", HISTS[h], &g, fwd, inv,
                    full: [nodes, noderefs, erefs, nc, ec, index, nbr, nbrd, edges, edgesd, adj, prop],
                    filt_nodes: [nodes, noderefs, erefs, index, nbr, nbrd, edges, edgesd, prop],
                    filt_edges: [nodes, noderefs, erefs, nc, index, nbr, nbrd, edges, edgesd, prop],
                    rev: [nodes, noderefs, erefs, nc, ec, index, nbr, nbrd, edges, edgesd, adj, prop],
                    und: [nodes, noderefs, erefs, nc, index, nbr, edges, prop]);
            } else {
                let (g, fwd) = build_matrix::<Undirected, i64>(ag, h, rng);
                let inv = inv_of(&fwd);
                let mut f = Fields::new();
                caps!(&g, &fwd, &inv, &mut f, [nodes, noderefs, erefs, nc, ec, index, nbr, edges, adj, prop]);
                f.insert("adaptor".into(), json!("id"));
                f.insert("pred".into(), json!({}));
                out.rec("C06", "matrix", HISTS[h], ag, f);
                let keep = |n| inv.get(&n).map(|&i| i % 2 == 0).unwrap_or(false);
                let nf = NodeFiltered::from_fn(&g, keep);
                let mut f = Fields::new();
                caps!(&nf, &fwd, &inv, &mut f, [nodes, erefs, nbr, edges]);
                f.insert("adaptor".into(), json!("nf"));
                f.insert("pred".into(), json!({"parity": 0}));
                out.rec("C06", "matrix", HISTS[h], ag, f);
            }
        }
        for h in 0..3 {
            macro_rules! csrenc { ($Ty:ty) => {{
                let (g, fwd) = build_csr::<$Ty, i64>(ag, h, rng);
                let inv = inv_of(&fwd);
                let mut f = Fields::new();
                caps!(&g, &fwd, &inv, &mut f, [nodes, noderefs, erefs, nc, ec, index, compact, nbr, edges, adj, prop]);
                f.insert("adaptor".into(), json!("id"));
                f.insert("pred".into(), json!({}));
                out.rec("C06", "csr", HISTS[h], ag, f);
                let ef = EdgeFiltered::from_fn(&g, |e| e.weight().to_i64() >= 2);
                let mut f = Fields::new();
                caps!(&ef, &fwd, &inv, &mut f, [nodes, erefs, nbr, edges]);
                f.insert("adaptor".into(), json!("ef"));
                f.insert("pred".into(), json!({"min_w": 2}));
                out.rec("C06", "csr", HISTS[h], ag, f);
            }}}
            if ag.directed { csrenc!(Directed); } else { csrenc!(Undirected); }
        }
    }
    if ag.directed {
        for h in 0..2 {
            let (g, fwd) = build_list::<i64>(ag, h, rng);
            let inv = inv_of(&fwd);
            let mut f = Fields::new();
            caps!(&g, &fwd, &inv, &mut f, [nodes, noderefs, erefs, nc, ec, index, compact, nbr, edges, adj, prop]);
            f.insert("adaptor".into(), json!("id"));
            f.insert("pred".into(), json!({}));
            out.rec("C06", "list", HISTS[h], ag, f);
        }
    }
}
