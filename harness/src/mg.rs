//! C01 / C02: driver for `Graph` and `StableGraph` (both edge types, any index type).
//! Every public call is one trace event {op, args.., ret, nc, ec[, st]}; `obs` events carry
//! the result of every query of the API.  Scripts are the same events without results.
use crate::common::*;
use crate::ix::*;
use petgraph::acyclic::{Acyclic, AcyclicEdgeError};
use petgraph::data::Build;
use petgraph::graph::{EdgeIndex, Graph, GraphError, IndexType, NodeIndex};
use petgraph::stable_graph::StableGraph;
use petgraph::visit::{EdgeIndexable, EdgeRef, IntoEdgeReferences, IntoNodeReferences, NodeIndexable};
use petgraph::Direction::{self, Incoming, Outgoing};
use petgraph::{Directed, EdgeType, Undirected};
use serde_json::{json, Value};

pub enum Obj<Ix: IndexType> {
    GD(Graph<i32, i32, Directed, Ix>),
    GU(Graph<i32, i32, Undirected, Ix>),
    SD(StableGraph<i32, i32, Directed, Ix>),
    SU(StableGraph<i32, i32, Undirected, Ix>),
    /// C14: the two inner types Acyclic supports
    AGD(Acyclic<Graph<i32, i32, Directed, Ix>>),
    ASD(Acyclic<StableGraph<i32, i32, Directed, Ix>>),
}

/// run `$body` with `$g` bound to the container, whatever its type (shared method names only)
macro_rules! on {
    ($o:expr, $g:ident => $body:expr) => {
        match $o {
            Obj::GD($g) => $body,
            Obj::GU($g) => $body,
            Obj::SD($g) => $body,
            Obj::SU($g) => $body,
            Obj::AGD(a) => { let $g = a.inner(); $body }
            Obj::ASD(a) => { let $g = a.inner(); $body }
        }
    };
}
/// mutable access: only for the bare containers (the generator never asks for these ops while wrapped)
macro_rules! onm {
    ($o:expr, $g:ident => $body:expr) => {
        match $o {
            Obj::GD($g) => $body,
            Obj::GU($g) => $body,
            Obj::SD($g) => $body,
            Obj::SU($g) => $body,
            _ => panic!("operation not available through Acyclic"),
        }
    };
}

fn ni<Ix: IndexType>(x: usize) -> NodeIndex<Ix> {
    NodeIndex::new(x)
}
fn ei<Ix: IndexType>(x: usize) -> EdgeIndex<Ix> {
    EdgeIndex::new(x)
}
fn u(v: &Value, f: &str) -> usize {
    v[f].as_u64().unwrap_or_else(|| panic!("field {} in {}", f, v)) as usize
}
fn err(e: GraphError) -> Value {
    match e {
        GraphError::NodeIxLimit => json!(["err_s", "NodeIxLimit"]),
        GraphError::EdgeIxLimit => json!(["err_s", "EdgeIxLimit"]),
        GraphError::NodeOutBounds => json!(["err_s", "NodeOutBounds"]),
        GraphError::NodeMissed(i) => json!(["err_i", i]),
    }
}
fn res_n<Ix: IndexType>(r: Result<NodeIndex<Ix>, GraphError>) -> Value {
    match r {
        Ok(i) => json!(["ok_i", i.index()]),
        Err(e) => err(e),
    }
}
fn res_e<Ix: IndexType>(r: Result<EdgeIndex<Ix>, GraphError>) -> Value {
    match r {
        Ok(i) => json!(["ok_i", i.index()]),
        Err(e) => err(e),
    }
}
fn opt_w(o: Option<i32>) -> Value {
    match o {
        Some(w) => json!(["i", w]),
        None => rnone(),
    }
}
fn dirv(d: usize) -> Direction {
    if d == 0 {
        Outgoing
    } else {
        Incoming
    }
}

fn eref_json<Ix: IndexType, E: EdgeRef<NodeId = NodeIndex<Ix>, EdgeId = EdgeIndex<Ix>, Weight = i32>>(e: E) -> Value {
    json!([e.id().index(), e.source().index(), e.target().index(), *e.weight()])
}

pub struct Driver<Ix: IndexType> {
    pub obj: Obj<Ix>,
    pub serial: i32,
    pub ixname: String,
    pub nobs: u64,
    pub poisoned: bool,
    pub saved: Option<Box<Obj<Ix>>>,
}

/// projection through the public API: node slots up to node_bound, edge slots up to edge_bound
macro_rules! project {
    ($g:expr) => {{
        let g = $g;
        let nb = g.node_bound();
        let eb = g.edge_bound();
        let nd: Vec<i64> = (0..nb).map(|i| g.node_weight(ni(i)).map(|w| *w as i64).unwrap_or(-1)).collect();
        let ed: Vec<Value> = (0..eb)
            .map(|e| match (g.edge_endpoints(ei(e)), g.edge_weight(ei(e))) {
                (Some((s, t)), Some(w)) => json!([s.index(), t.index(), *w]),
                _ => json!([-1, -1, -1]),
            })
            .collect();
        json!({"nd": nd, "ed": ed})
    }};
}

macro_rules! observe {
    ($g:expr, $rng:expr, $ixmax:expr) => {{
        let g = $g;
        let rng: &mut Rng = $rng;
        let ixmax: usize = $ixmax;
        let nb = g.node_bound();
        let eb = g.edge_bound();
        let eref = |e: &_| -> Value { eref_json(*e) };
        // which nodes to query exhaustively: all (plus one absent index) when small, a sample otherwise
        let mut nodes: Vec<usize> = if nb <= 9 { (0..=nb).collect() } else { (0..10).map(|_| rng.below(nb + 1)).collect() };
        nodes.retain(|&a| a <= ixmax);
        let mut per = vec![];
        for &a in &nodes {
            let mut wo = vec![];
            let mut w = g.neighbors_directed(ni(a), Outgoing).detach();
            while let Some((e, n)) = w.next(g) {
                wo.push(json!([e.index(), n.index()]));
            }
            let mut wi = vec![];
            let mut w = g.neighbors_directed(ni(a), Incoming).detach();
            // exercise next_edge / next_node alternately: they must walk the same sequence
            let mut flip = false;
            loop {
                let mut c = w.clone();
                let step = w.next(g);
                match step {
                    None => break,
                    Some((e, n)) => {
                        if flip {
                            assert_eq!(c.next_edge(g), Some(e));
                        } else {
                            assert_eq!(c.next_node(g), Some(n));
                        }
                        flip = !flip;
                        wi.push(json!([e.index(), n.index()]));
                    }
                }
            }
            per.push(json!({
                "a": a,
                "nw": opt_w(g.node_weight(ni(a)).copied()),
                "eo": g.edges_directed(ni(a), Outgoing).map(|e| eref(&e)).collect::<Vec<_>>(),
                "ei": g.edges_directed(ni(a), Incoming).map(|e| eref(&e)).collect::<Vec<_>>(),
                "eo2": g.edges(ni(a)).map(|e| eref(&e)).collect::<Vec<_>>(),
                "no": g.neighbors_directed(ni(a), Outgoing).map(|n| n.index()).collect::<Vec<_>>(),
                "ni": g.neighbors_directed(ni(a), Incoming).map(|n| n.index()).collect::<Vec<_>>(),
                "no2": g.neighbors(ni(a)).map(|n| n.index()).collect::<Vec<_>>(),
                "nu": g.neighbors_undirected(ni(a)).map(|n| n.index()).collect::<Vec<_>>(),
                "wo": wo, "wi": wi,
            }));
        }
        let mut pairs_ix: Vec<(usize, usize)> = vec![];
        if nb <= 4 {
            for a in 0..=nb {
                for b in 0..=nb {
                    pairs_ix.push((a, b));
                }
            }
        } else {
            let ers: Vec<(usize, usize)> = g.edge_references().map(|e| (e.source().index(), e.target().index())).collect();
            for i in 0..12 {
                if i % 2 == 0 && !ers.is_empty() {
                    let (s, t) = ers[rng.below(ers.len())];
                    pairs_ix.push(if rng.chance(1, 2) { (s, t) } else { (t, s) });
                } else {
                    pairs_ix.push((rng.below(nb + 1), rng.below(nb + 1)));
                }
            }
        }
        pairs_ix.retain(|&(a, b)| a <= ixmax && b <= ixmax);
        // GetAdjacencyMatrix: one matrix per observation, queried for pairs of live nodes
        let adjm = petgraph::visit::GetAdjacencyMatrix::adjacency_matrix(g);
        let pairs: Vec<Value> = pairs_ix
            .iter()
            .map(|&(a, b)| {
                json!({
                    "a": a, "b": b,
                    "adj": if g.node_weight(ni(a)).is_some() && g.node_weight(ni(b)).is_some() { rb(petgraph::visit::GetAdjacencyMatrix::is_adjacent(g, &adjm, ni(a), ni(b))) } else { rnone() },
                    "fe": opt_i(g.find_edge(ni(a), ni(b)).map(|e| e.index())),
                    "ce": g.contains_edge(ni(a), ni(b)),
                    "fu": match g.find_edge_undirected(ni(a), ni(b)) {
                        Some((e, d)) => json!(["li", [e.index(), if d == Outgoing { 0 } else { 1 }]]),
                        None => rnone(),
                    },
                    "ec": g.edges_connecting(ni(a), ni(b)).map(|e| eref(&e)).collect::<Vec<_>>(),
                })
            })
            .collect();
        let mut es: Vec<usize> = if eb <= 9 { (0..=eb).collect() } else { (0..10).map(|_| rng.below(eb + 1)).collect() };
        es.retain(|&e| e <= ixmax);
        let eq: Vec<Value> = es
            .iter()
            .map(|&e| {
                json!({
                    "e": e,
                    "w": opt_w(g.edge_weight(ei(e)).copied()),
                    "ep": match g.edge_endpoints(ei(e)) {
                        Some((s, t)) => json!(["li", [s.index(), t.index()]]),
                        None => rnone(),
                    },
                })
            })
            .collect();
        // edge_references driven alternately from the front and from the back
        let edges_mix: Vec<Value> = {
            let mut it = g.edge_references();
            let mut v = vec![];
            let mut front = true;
            loop {
                let x = if front { it.next() } else { it.next_back() };
                match x { Some(e) => v.push(eref(&e)), None => break }
                front = !front;
            }
            v
        };
        json!({
            "op": "obs",
            "nc": g.node_count(), "ec": g.edge_count(), "nb": nb, "eb": eb,
            // the same numbers through the visit traits (their own impls)
            "tr": [petgraph::visit::NodeCount::node_count(g), petgraph::visit::EdgeCount::edge_count(g),
                   petgraph::visit::NodeIndexable::node_bound(g), petgraph::visit::EdgeIndexable::edge_bound(g)],
            "directed": g.is_directed(),
            "nodes": g.node_references().map(|(i, w)| json!([i.index(), *w])).collect::<Vec<_>>(),
            "edges": g.edge_references().map(|e| eref(&e)).collect::<Vec<_>>(),
            "edges_rev": g.edge_references().rev().map(|e| eref(&e)).collect::<Vec<_>>(),
            "nodes_rev": g.node_references().rev().map(|(i, w)| json!([i.index(), *w])).collect::<Vec<_>>(),
            "edges_mix": edges_mix,
            "nidx": g.node_indices().map(|i| i.index()).collect::<Vec<_>>(),
            "nidx_rev": g.node_indices().rev().map(|i| i.index()).collect::<Vec<_>>(),
            "eidx": g.edge_indices().map(|i| i.index()).collect::<Vec<_>>(),
            "eidx_rev": g.edge_indices().rev().map(|i| i.index()).collect::<Vec<_>>(),
            "nws": g.node_weights().copied().collect::<Vec<_>>(),
            "ews": g.edge_weights().copied().collect::<Vec<_>>(),
            "ext_o": g.externals(Outgoing).map(|i| i.index()).collect::<Vec<_>>(),
            "ext_i": g.externals(Incoming).map(|i| i.index()).collect::<Vec<_>>(),
            "cn": (0..=nb.min(ixmax)).map(|i| g.node_weight(ni(i)).is_some()).collect::<Vec<_>>(),
            "per": per, "pairs": pairs, "eq": eq,
        })
    }};
}

impl<Ix: SIx> Driver<Ix> {
    pub fn new(ixname: &str) -> Self {
        Driver { obj: Obj::GD(Graph::with_capacity(0, 0)), serial: 1, ixname: ixname.to_string(), nobs: 0, poisoned: false, saved: None }
    }
    fn fresh(&mut self) -> i32 {
        self.serial += 1;
        self.serial
    }
    pub fn is_stable(&self) -> bool {
        matches!(self.obj, Obj::SD(_) | Obj::SU(_) | Obj::ASD(_))
    }
    pub fn is_directed(&self) -> bool {
        matches!(self.obj, Obj::GD(_) | Obj::SD(_) | Obj::AGD(_) | Obj::ASD(_))
    }
    pub fn is_acyclic_wrapped(&self) -> bool {
        matches!(self.obj, Obj::AGD(_) | Obj::ASD(_))
    }
    /// nodes_iter plus the consistency of get_position / at_position with it (positions are opaque)
    fn ac_info(&self) -> (Vec<usize>, bool, bool) {
        macro_rules! info { ($a:expr) => {{
            let a = $a;
            let ord: Vec<_> = a.nodes_iter().collect();
            let pos_inc = ord.windows(2).all(|w| a.get_position(w[0]) < a.get_position(w[1]));
            let atpos = ord.iter().all(|&n| a.at_position(a.get_position(n)) == Some(n));
            (ord.iter().map(|n| n.index()).collect(), pos_inc, atpos)
        }}}
        match &self.obj {
            Obj::AGD(a) => info!(a),
            Obj::ASD(a) => info!(a),
            _ => (vec![], true, true),
        }
    }
    pub fn find_edge_ix(&self, a: usize, b: usize) -> Option<usize> {
        on!(&self.obj, g => g.find_edge(ni(a), ni(b)).map(|e| e.index()))
    }
    pub fn ac_order(&self) -> Vec<usize> {
        self.ac_info().0
    }
    pub fn counts(&self) -> (usize, usize, usize, usize) {
        on!(&self.obj, g => (g.node_count(), g.edge_count(), g.node_bound(), g.edge_bound()))
    }
    pub fn project(&self) -> Value {
        on!(&self.obj, g => project!(g))
    }
    pub fn degree(&self, a: usize) -> usize {
        on!(&self.obj, g => g.neighbors_undirected(ni(a)).count())
    }
    pub fn live_nodes(&self) -> Vec<usize> {
        on!(&self.obj, g => g.node_indices().map(|i| i.index()).collect())
    }
    pub fn live_edges(&self) -> Vec<usize> {
        on!(&self.obj, g => g.edge_indices().map(|i| i.index()).collect())
    }

    /// Execute one script op on the real container and log the resulting event.  A panic that the
    /// op-level code did not expect (i.e. not one of the documented panics, which are guarded and
    /// logged as `ret = ["panic"]`) is logged as a `panicked` event - which no spec action explains -
    /// and ends the segment: the container may have been left half-modified.
    pub fn apply(&mut self, op: &Value, log: &mut Log, rng: &mut Rng) {
        if self.poisoned && op["op"] != "reset" {
            return;
        }
        log.about_to(op);
        let r = guard(|| self.apply_inner(op, log, rng));
        if r.is_err() {
            self.poisoned = true;
            let mut ev = op.clone();
            ev["during"] = op["op"].clone();
            ev["op"] = json!("panicked");
            log.ev(ev);
        }
    }

    fn apply_inner(&mut self, op: &Value, log: &mut Log, rng: &mut Rng) {
        let name = op["op"].as_str().unwrap().to_string();
        let mut ev = op.clone();
        if let Some(o) = ev.as_object_mut() {
            for k in ["ret", "nc", "ec", "st"] {
                o.remove(k);
            }
        }
        // weight argument: from the script if present, else a fresh serial
        let needs_w = matches!(name.as_str(), "try_add_node" | "add_node" | "try_add_edge" | "add_edge" | "try_update_edge" | "update_edge" | "set_node_weight" | "set_edge_weight");
        let w: i32 = if needs_w {
            match op.get("w").and_then(|x| x.as_i64()) {
                Some(x) => x as i32,
                None => self.fresh(),
            }
        } else {
            0
        };
        if needs_w {
            ev["w"] = json!(w);
        }
        let mut want_st = false;
        let ixmax = maxix::<Ix>();
        // "via":"build" routes the call through the data::Build trait implementation instead of the inherent method
        let via_build = op.get("via").and_then(|v| v.as_str()) == Some("build");
        let ret: Value = match name.as_str() {
            "reset" => {
                let directed = op["directed"].as_bool().unwrap();
                let stable = op["kind"] == "stable";
                let ctor = op["ctor"].as_str().unwrap_or("with_capacity");
                self.obj = match (stable, directed) {
                    (false, true) => Obj::GD(if ctor == "default" { Default::default() } else { Graph::with_capacity(0, if ctor == "caps" { 7 } else { 0 }) }),
                    (false, false) => Obj::GU(if ctor == "default" { Default::default() } else { Graph::with_capacity(if ctor == "caps" { 5 } else { 0 }, 0) }),
                    (true, true) => Obj::SD(if ctor == "default" { Default::default() } else { StableGraph::with_capacity(0, if ctor == "caps" { 7 } else { 0 }) }),
                    (true, false) => Obj::SU(if ctor == "default" { Default::default() } else { StableGraph::with_capacity(if ctor == "caps" { 5 } else { 0 }, 0) }),
                };
                self.poisoned = false;
                ev["maxix"] = json!(ixmax);
                ev["ix"] = json!(self.ixname);
                rs("ok")
            }
            "try_add_node" => onm!(&mut self.obj, g => res_n(g.try_add_node(w))),
            "add_node" if via_build => onm!(&mut self.obj, g => or_panic(guard(|| ri(Build::add_node(g, w).index())))),
            "add_node" => onm!(&mut self.obj, g => or_panic(guard(|| ri(g.add_node(w).index())))),
            "try_add_edge" => {
                let (a, b) = (u(op, "a"), u(op, "b"));
                onm!(&mut self.obj, g => or_panic(guard(|| res_e(g.try_add_edge(ni(a), ni(b), w)))))
            }
            "add_edge" if via_build => {
                let (a, b) = (u(op, "a"), u(op, "b"));
                onm!(&mut self.obj, g => or_panic(guard(|| match Build::add_edge(g, ni(a), ni(b), w) { Some(e) => ri(e.index()), None => rnone() })))
            }
            "update_edge" if via_build => {
                let (a, b) = (u(op, "a"), u(op, "b"));
                onm!(&mut self.obj, g => or_panic(guard(|| ri(Build::update_edge(g, ni(a), ni(b), w).index()))))
            }
            "add_edge" => {
                let (a, b) = (u(op, "a"), u(op, "b"));
                onm!(&mut self.obj, g => or_panic(guard(|| ri(g.add_edge(ni(a), ni(b), w).index()))))
            }
            "try_update_edge" => {
                let (a, b) = (u(op, "a"), u(op, "b"));
                onm!(&mut self.obj, g => or_panic(guard(|| res_e(g.try_update_edge(ni(a), ni(b), w)))))
            }
            "update_edge" => {
                let (a, b) = (u(op, "a"), u(op, "b"));
                onm!(&mut self.obj, g => or_panic(guard(|| ri(g.update_edge(ni(a), ni(b), w).index()))))
            }
            "remove_edge" => {
                let e = u(op, "e");
                want_st = true;
                onm!(&mut self.obj, g => or_panic(guard(|| opt_w(g.remove_edge(ei(e))))))
            }
            "remove_node" => {
                let a = u(op, "a");
                want_st = true;
                onm!(&mut self.obj, g => or_panic(guard(|| opt_w(g.remove_node(ni(a))))))
            }
            "reverse" => {
                onm!(&mut self.obj, g => g.reverse());
                rs("ok")
            }
            "clear" => {
                onm!(&mut self.obj, g => g.clear());
                rs("ok")
            }
            "clear_edges" => {
                onm!(&mut self.obj, g => g.clear_edges());
                rs("ok")
            }
            "set_node_weight" => {
                let a = u(op, "a");
                let via = op["via"].as_str().unwrap_or("node_weight_mut");
                match via {
                    "index_mut" => onm!(&mut self.obj, g => {
                        // IndexMut panics on an absent node; the spec models the Option-returning call,
                        // so only use it when the node exists
                        if g.node_weight(ni(a)).is_some() { let old = g[ni::<Ix>(a)]; g[ni::<Ix>(a)] = w; json!(["i", old]) }
                        else { match guard(|| g[ni::<Ix>(a)]) { Ok(_) => json!(["i", -7]), Err(()) => rnone() } }
                    }),
                    "node_weights_mut" => onm!(&mut self.obj, g => {
                        // position of `a` among the live nodes
                        let pos = g.node_indices().position(|i| i.index() == a);
                        match pos {
                            Some(p) => { let r = g.node_weights_mut().nth(p).unwrap(); let old = *r; *r = w; json!(["i", old]) }
                            None => rnone(),
                        }
                    }),
                    _ => onm!(&mut self.obj, g => match g.node_weight_mut(ni(a)) { Some(r) => { let old = *r; *r = w; json!(["i", old]) } None => rnone() }),
                }
            }
            "set_edge_weight" => {
                let e = u(op, "e");
                let via = op["via"].as_str().unwrap_or("edge_weight_mut");
                match via {
                    "index_mut" => onm!(&mut self.obj, g => {
                        if g.edge_weight(ei(e)).is_some() { let old = g[ei::<Ix>(e)]; g[ei::<Ix>(e)] = w; json!(["i", old]) }
                        else { match guard(|| g[ei::<Ix>(e)]) { Ok(_) => json!(["i", -7]), Err(()) => rnone() } }
                    }),
                    "edge_weights_mut" => onm!(&mut self.obj, g => {
                        let pos = g.edge_indices().position(|i| i.index() == e);
                        match pos {
                            Some(p) => { let r = g.edge_weights_mut().nth(p).unwrap(); let old = *r; *r = w; json!(["i", old]) }
                            None => rnone(),
                        }
                    }),
                    _ => onm!(&mut self.obj, g => match g.edge_weight_mut(ei(e)) { Some(r) => { let old = *r; *r = w; json!(["i", old]) } None => rnone() }),
                }
            }
            "index_twice_ne" => {
                let (a, e) = (u(op, "a"), u(op, "e"));
                onm!(&mut self.obj, g => match guard(|| { let (x, y) = g.index_twice_mut(ni::<Ix>(a), ei::<Ix>(e)); std::mem::swap(x, y); }) { Ok(()) => rs("ok"), Err(()) => rpanic() })
            }
            "index_twice_nn" => {
                let (a, b) = (u(op, "a"), u(op, "b"));
                onm!(&mut self.obj, g => match guard(|| { let (x, y) = g.index_twice_mut(ni::<Ix>(a), ni::<Ix>(b)); std::mem::swap(x, y); }) { Ok(()) => rs("ok"), Err(()) => rpanic() })
            }
            "noeffect" => {
                let which = op["which"].as_str().unwrap_or("clone");
                let x = op.get("x").and_then(|v| v.as_u64()).unwrap_or(3) as usize;
                match which {
                    "clone" => {
                        self.obj = match &self.obj {
                            Obj::GD(g) => Obj::GD(g.clone()),
                            Obj::GU(g) => Obj::GU(g.clone()),
                            Obj::SD(g) => Obj::SD(g.clone()),
                            Obj::SU(g) => Obj::SU(g.clone()),
                            Obj::AGD(g) => Obj::AGD(g.clone()),
                            Obj::ASD(g) => Obj::ASD(g.clone()),
                        }
                    }
                    "clone_from" => {
                        self.obj = match &self.obj {
                            Obj::GD(g) => {
                                // the destination has its own nodes and edges (more or fewer than the source)
                                let mut h = Graph::with_capacity(1, 1);
                                let k = ixmax.min(4).max(2);
                                let ns: Vec<_> = (0..k).map(|i| h.add_node(90 + i as i32)).collect();
                                if x % 3 != 0 { for i in 0..k { h.add_edge(ns[i], ns[(i + 1) % k], 900 + i as i32); } }
                                h.clone_from(g);
                                Obj::GD(h)
                            }
                            Obj::GU(g) => {
                                // the destination has its own nodes and edges (more or fewer than the source)
                                let mut h = Graph::with_capacity(1, 1);
                                let k = ixmax.min(4).max(2);
                                let ns: Vec<_> = (0..k).map(|i| h.add_node(90 + i as i32)).collect();
                                if x % 3 != 0 { for i in 0..k { h.add_edge(ns[i], ns[(i + 1) % k], 900 + i as i32); } }
                                h.clone_from(g);
                                Obj::GU(h)
                            }
                            Obj::SD(g) => {
                                // the destination has its own history: live elements and vacant node AND edge slots (free lists)
                                let mut h = StableGraph::with_capacity(1, 1);
                                let k = ixmax.min(4).max(2);
                                let ns: Vec<_> = (0..k).map(|i| h.add_node(90 + i as i32)).collect();
                                let es: Vec<_> = (0..k).map(|i| h.add_edge(ns[i], ns[(i + 1) % k], 900 + i as i32)).collect();
                                if x % 3 != 0 { h.remove_edge(es[1]); h.remove_edge(es[k - 1]); }
                                if x % 3 == 1 { h.remove_node(ns[k - 2]); h.remove_node(ns[0]); }
                                h.clone_from(g);
                                Obj::SD(h)
                            }
                            Obj::SU(g) => {
                                // the destination has its own history: live elements and vacant node AND edge slots (free lists)
                                let mut h = StableGraph::with_capacity(1, 1);
                                let k = ixmax.min(4).max(2);
                                let ns: Vec<_> = (0..k).map(|i| h.add_node(90 + i as i32)).collect();
                                let es: Vec<_> = (0..k).map(|i| h.add_edge(ns[i], ns[(i + 1) % k], 900 + i as i32)).collect();
                                if x % 3 != 0 { h.remove_edge(es[1]); h.remove_edge(es[k - 1]); }
                                if x % 3 == 1 { h.remove_node(ns[k - 2]); h.remove_node(ns[0]); }
                                h.clone_from(g);
                                Obj::SU(h)
                            }
                            Obj::AGD(g) => Obj::AGD(g.clone()),
                            Obj::ASD(g) => Obj::ASD(g.clone()),
                        }
                    }
                    "reserve" => match &mut self.obj {
                        Obj::GD(g) => { g.reserve_nodes(x); g.reserve_edges(x); g.reserve_exact_nodes(x); g.reserve_exact_edges(x); }
                        Obj::GU(g) => { g.reserve_nodes(x); g.reserve_edges(x); g.reserve_exact_nodes(x); g.reserve_exact_edges(x); }
                        _ => {}
                    },
                    "shrink" => match &mut self.obj {
                        Obj::GD(g) => { g.shrink_to_fit_nodes(); g.shrink_to_fit_edges(); g.shrink_to_fit(); }
                        Obj::GU(g) => { g.shrink_to_fit_nodes(); g.shrink_to_fit_edges(); g.shrink_to_fit(); }
                        _ => {}
                    },
                    _ => {
                        let _ = on!(&self.obj, g => g.capacity());
                    }
                }
                rs("ok")
            }
            "into_edge_type" => {
                let d = op["d"].as_bool().unwrap();
                let old = std::mem::replace(&mut self.obj, Obj::GD(Graph::with_capacity(0, 0)));
                self.obj = match (old, d) {
                    (Obj::GD(g), true) => Obj::GD(g.into_edge_type()),
                    (Obj::GD(g), false) => Obj::GU(g.into_edge_type()),
                    (Obj::GU(g), true) => Obj::GD(g.into_edge_type()),
                    (Obj::GU(g), false) => Obj::GU(g.into_edge_type()),
                    (o, _) => o, // not offered for StableGraph: the generator never asks
                };
                rs("ok")
            }
            "from_elements" => {
                // data::FromElements on the container's own element stream: same type, compacted, rebuilt in index order
                use petgraph::data::FromElements;
                self.obj = match &self.obj {
                    Obj::GD(g) => Obj::GD(Graph::from_elements(elems_of(g))),
                    Obj::GU(g) => Obj::GU(Graph::from_elements(elems_of(g))),
                    Obj::SD(g) => Obj::SD(StableGraph::from_elements(elems_of(g))),
                    Obj::SU(g) => Obj::SU(StableGraph::from_elements(elems_of(g))),
                    Obj::AGD(g) => Obj::AGD(g.clone()),
                    Obj::ASD(g) => Obj::ASD(g.clone()),
                };
                want_st = true;
                rs("ok")
            }
            "to_stable" => {
                let old = std::mem::replace(&mut self.obj, Obj::GD(Graph::with_capacity(0, 0)));
                self.obj = match old {
                    Obj::GD(g) => Obj::SD(StableGraph::from(g)),
                    Obj::GU(g) => Obj::SU(StableGraph::from(g)),
                    o => o,
                };
                want_st = true;
                rs("ok")
            }
            "to_graph" => {
                let old = std::mem::replace(&mut self.obj, Obj::GD(Graph::with_capacity(0, 0)));
                self.obj = match old {
                    Obj::SD(g) => Obj::GD(Graph::from(g)),
                    Obj::SU(g) => Obj::GU(Graph::from(g)),
                    o => o,
                };
                want_st = true;
                rs("ok")
            }
            "retain" => {
                // expands to retain_begin / retain_visit* / retain_end events
                let kind = op["kind"].as_str().unwrap().to_string();
                let m = u(op, "m") as i32;
                let r = u(op, "r") as i32;
                let (nc, ec, _, _) = self.counts();
                log.ev(json!({"op":"retain_begin","kind":kind,"ret":rs("ok"),"nc":nc,"ec":ec}));
                let mut visits: Vec<Value> = vec![];
                let res = onm!(&mut self.obj, g => guard(|| {
                    if kind == "node" {
                        g.retain_nodes(|fz, i| {
                            let w = fz[i];
                            let keep = w % m != r;
                            visits.push(json!({"op":"retain_visit","kind":"node","ix":i.index(),"w":w,"keep":keep,
                                "fz_nc":fz.node_count(),"fz_ec":fz.edge_count(),"pre":project!(&*fz),"ret":rb(keep)}));
                            keep
                        })
                    } else {
                        g.retain_edges(|fz, e| {
                            let w = fz[e];
                            let keep = w % m != r;
                            visits.push(json!({"op":"retain_visit","kind":"edge","ix":e.index(),"w":w,"keep":keep,
                                "fz_nc":fz.node_count(),"fz_ec":fz.edge_count(),"pre":project!(&*fz),"ret":rb(keep)}));
                            keep
                        })
                    }
                }));
                // each visit logs the projection the closure saw through Frozen (= the state left by the
                // previous visit); the projection after the whole call binds the final state
                for v in visits.into_iter() {
                    log.ev(v);
                }
                let (nc, ec, _, _) = self.counts();
                let st = self.project();
                match res {
                    Ok(()) => log.ev(json!({"op":"retain_end","ret":rs("ok"),"nc":nc,"ec":ec,"st":st})),
                    Err(()) => log.ev(json!({"op":"retain_end","ret":rpanic(),"nc":nc,"ec":ec,"st":st})),
                }
                return;
            }
            "extend_with_edges" => {
                let edges: Vec<(usize, usize, i32)> = op["edges"].as_array().unwrap().iter().map(|t| (t[0].as_u64().unwrap() as usize, t[1].as_u64().unwrap() as usize, t[2].as_i64().unwrap() as i32)).collect();
                let it = edges.iter().map(|&(s, t, w)| (ni::<Ix>(s), ni::<Ix>(t), w));
                want_st = true;
                let via_from = op["via"] == "from_edges";
                if via_from {
                    let (stable, directed) = (self.is_stable(), self.is_directed());
                    self.obj = match (stable, directed) {
                        (false, true) => Obj::GD(Graph::from_edges(it)),
                        (false, false) => Obj::GU(Graph::from_edges(it)),
                        (true, true) => Obj::SD(StableGraph::from_edges(it)),
                        (true, false) => Obj::SU(StableGraph::from_edges(it)),
                    };
                    rs("ok")
                } else {
                    // the IntoWeightedEdge forms: owned triple, triple with a borrowed weight, reference to a triple
                    let owned: Vec<(petgraph::graph::NodeIndex<Ix>, petgraph::graph::NodeIndex<Ix>, i32)> = it.collect();
                    match self.serial % 3 {
                        0 => onm!(&mut self.obj, g => match guard(|| g.extend_with_edges(owned.iter().cloned())) { Ok(()) => rs("ok"), Err(()) => rpanic() }),
                        1 => onm!(&mut self.obj, g => match guard(|| g.extend_with_edges(owned.iter().map(|t| (t.0, t.1, &t.2)))) { Ok(()) => rs("ok"), Err(()) => rpanic() }),
                        _ => onm!(&mut self.obj, g => match guard(|| g.extend_with_edges(owned.iter())) { Ok(()) => rs("ok"), Err(()) => rpanic() }),
                    }
                }
            }
            "map" | "filter_map" => {
                let filt = name == "filter_map";
                let (m, r) = if filt { (u(op, "m") as i32, u(op, "r") as i32) } else { (1, 5) };
                let (_, _, nb, eb) = self.counts();
                let mut nmap: Vec<i32> = vec![-1; nb];
                let mut emap: Vec<i32> = vec![-1; eb];
                let ctr = std::cell::Cell::new(self.serial);
                let next = || { ctr.set(ctr.get() + 1); ctr.get() };
                macro_rules! domap {
                    ($g:expr, $wrap:path) => {{
                        let g = $g;
                        let h = if filt {
                            g.filter_map(
                                |i, w| { if *w % m == r { None } else { let v = next(); nmap[i.index()] = v; Some(v) } },
                                |e, w| { if (*w + 1) % m == r { None } else { let v = next(); emap[e.index()] = v; Some(v) } },
                            )
                        } else {
                            g.map(
                                |i, _w| { let v = next(); nmap[i.index()] = v; v },
                                |e, _w| { let v = next(); emap[e.index()] = v; v },
                            )
                        };
                        $wrap(h)
                    }};
                }
                let newobj = match &self.obj {
                    Obj::GD(g) => domap!(g, Obj::GD),
                    Obj::GU(g) => domap!(g, Obj::GU),
                    Obj::SD(g) => domap!(g, Obj::SD),
                    Obj::SU(g) => domap!(g, Obj::SU),
                    _ => panic!("map not available through Acyclic"),
                };
                self.obj = newobj;
                self.serial = ctr.get() + 1;
                ev["nmap"] = json!(nmap);
                ev["emap"] = json!(emap);
                want_st = true;
                rs("ok")
            }
            "obs" => {
                self.nobs += 1;
                let mut o = on!(&self.obj, g => observe!(g, rng, ixmax));
                // Graph only: the public accessors to the internals (raw_nodes, raw_edges, first_edge / next_edge chains,
                // into_nodes_edges)
                match &self.obj {
                    Obj::GD(g) => { o["raw"] = raw_json(g); }
                    Obj::GU(g) => { o["raw"] = raw_json(g); }
                    _ => {}
                }
                if self.is_acyclic_wrapped() {
                    let (ord, pos_inc, atpos_ok) = self.ac_info();
                    macro_rules! acobs { ($a:expr) => {{
                        let a = $a;
                        let live: Vec<usize> = ord.clone();
                        let mut valid = vec![];
                        for &x in live.iter().take(6) { for &y in live.iter().take(6) {
                            valid.push(json!([x, y, a.is_valid_edge(ni(x), ni(y))]));
                        } }
                        let mut ranges = vec![];
                        for _ in 0..3 {
                            if ord.is_empty() { break; }
                            let i = rng.below(ord.len());
                            let j = i + rng.below(ord.len() - i);
                            let r: Vec<usize> = a.range(a.get_position(ni(ord[i]))..=a.get_position(ni(ord[j]))).map(|n| n.index()).collect();
                            let r2: Vec<usize> = a.range(a.get_position(ni(ord[i]))..).map(|n| n.index()).collect();
                            if r2 != ord[i..].to_vec() { ranges.push(json!([ord[i], ord[i], ["open range disagrees with nodes_iter"]])); }
                            ranges.push(json!([ord[i], ord[j], r]));
                        }
                        json!({"order": ord, "pos_inc": pos_inc, "atpos_ok": atpos_ok, "valid": valid, "ranges": ranges})
                    }}}
                    o["ac"] = match &self.obj { Obj::AGD(a) => acobs!(a), Obj::ASD(a) => acobs!(a), _ => json!({}) };
                }
                log.ev(o);
                return;
            }
            "save" | "restore" => {
                fn cl<Ix: IndexType>(o: &Obj<Ix>) -> Obj<Ix> {
                    match o {
                        Obj::GD(g) => Obj::GD(g.clone()), Obj::GU(g) => Obj::GU(g.clone()),
                        Obj::SD(g) => Obj::SD(g.clone()), Obj::SU(g) => Obj::SU(g.clone()),
                        Obj::AGD(g) => Obj::AGD(g.clone()), Obj::ASD(g) => Obj::ASD(g.clone()),
                    }
                }
                if name == "save" {
                    self.saved = Some(Box::new(cl(&self.obj)));
                } else {
                    self.obj = cl(self.saved.as_ref().expect("restore without save"));
                    want_st = true;
                }
                rs("ok")
            }
            "serde" => {
                // C17: serialize, optionally mutate the stream, deserialize (possibly into the other
                // container type); logs a `ser` event (JSON document = wire format) and a `de` event
                let fmt = op["fmt"].as_str().unwrap_or("json").to_string();
                let to = op["to"].as_str().unwrap_or("same").to_string();
                let mutation = op.get("mut").cloned().unwrap_or(json!("none"));
                self.serde_op(&fmt, &to, &mutation, log, rng);
                return;
            }
            "ac_wrap" if op["via"] == "with_capacity" => {
                // Create::with_capacity on the wrapper itself (only for an empty inner graph): more edges than nodes hinted
                use petgraph::data::Create;
                let (n, _, _, _) = self.counts();
                assert_eq!(n, 0, "with_capacity wrap needs an empty graph");
                let newobj = match &self.obj {
                    Obj::GD(_) => Obj::AGD(<Acyclic<Graph<i32, i32, petgraph::Directed, Ix>> as Create>::with_capacity(1, 9)),
                    Obj::SD(_) => Obj::ASD(<Acyclic<StableGraph<i32, i32, petgraph::Directed, Ix>> as Create>::with_capacity(2, 9)),
                    _ => panic!("ac_wrap on a non-directed or already wrapped container"),
                };
                self.obj = newobj;
                want_st = true;
                rs("ok")
            }
            "ac_wrap" => {
                let via_tryfrom = op["via"] == "try_from";
                let (newobj, ret) = match &self.obj {
                    Obj::GD(g) => match if via_tryfrom { Acyclic::try_from(g.clone()) } else { Acyclic::try_from_graph(g.clone()) } {
                        Ok(a) => (Some(Obj::AGD(a)), rs("ok")),
                        Err(c) => (None, json!(["cycle", c.node_id().index()])),
                    },
                    Obj::SD(g) => match if via_tryfrom { Acyclic::try_from(g.clone()) } else { Acyclic::try_from_graph(g.clone()) } {
                        Ok(a) => (Some(Obj::ASD(a)), rs("ok")),
                        Err(c) => (None, json!(["cycle", c.node_id().index()])),
                    },
                    _ => panic!("ac_wrap on a non-directed or already wrapped container"),
                };
                if let Some(o) = newobj { self.obj = o; }
                want_st = true;
                ret
            }
            "ac_unwrap" => {
                let old = std::mem::replace(&mut self.obj, Obj::GD(Graph::with_capacity(0, 0)));
                self.obj = match old { Obj::AGD(a) => Obj::GD(a.into_inner()), Obj::ASD(a) => Obj::SD(a.into_inner()), o => o };
                want_st = true;
                rs("ok")
            }
            "ac_add_node" => {
                let w = self.fresh();
                ev["w"] = json!(w);
                match &mut self.obj {
                    Obj::AGD(a) => or_panic(guard(|| ri(a.add_node(w).index()))),
                    Obj::ASD(a) => or_panic(guard(|| ri(a.add_node(w).index()))),
                    _ => panic!("not wrapped"),
                }
            }
            "ac_try_add_edge" | "ac_try_update_edge" | "ac_build_add_edge" | "ac_build_update_edge" => {
                let (a, b) = (u(op, "a"), u(op, "b"));
                let w = match op.get("w").and_then(|x| x.as_i64()) { Some(x) => x as i32, None => self.fresh() };
                ev["w"] = json!(w);
                want_st = true;
                fn aerr<N>(e: AcyclicEdgeError<N>) -> Value {
                    match e { AcyclicEdgeError::Cycle(_) => json!(["err_s", "Cycle"]), AcyclicEdgeError::SelfLoop => json!(["err_s", "SelfLoop"]), AcyclicEdgeError::InvalidEdge => json!(["err_s", "InvalidEdge"]) }
                }
                macro_rules! edgeop { ($g:expr) => {{
                    let g = $g;
                    match name.as_str() {
                        "ac_try_add_edge" => or_panic(guard(|| match g.try_add_edge(ni(a), ni(b), w) { Ok(e) => json!(["ok_i", e.index()]), Err(e) => aerr(e) })),
                        "ac_try_update_edge" => or_panic(guard(|| match g.try_update_edge(ni(a), ni(b), w) { Ok(e) => json!(["ok_i", e.index()]), Err(e) => aerr(e) })),
                        "ac_build_add_edge" => or_panic(guard(|| match Build::add_edge(g, ni(a), ni(b), w) { Some(e) => ri(e.index()), None => rnone() })),
                        _ => or_panic(guard(|| ri(Build::update_edge(g, ni(a), ni(b), w).index()))),
                    }
                }}}
                match &mut self.obj { Obj::AGD(g) => edgeop!(g), Obj::ASD(g) => edgeop!(g), _ => panic!("not wrapped") }
            }
            "ac_remove_edge" => {
                let e = u(op, "e");
                want_st = true;
                match &mut self.obj {
                    Obj::AGD(g) => or_panic(guard(|| opt_w(g.remove_edge(ei(e))))),
                    Obj::ASD(g) => or_panic(guard(|| opt_w(g.remove_edge(ei(e))))),
                    _ => panic!("not wrapped"),
                }
            }
            "ac_remove_node" => {
                let a = u(op, "a");
                want_st = true;
                match &mut self.obj {
                    Obj::AGD(g) => or_panic(guard(|| opt_w(g.remove_node(ni(a))))),
                    Obj::ASD(g) => or_panic(guard(|| opt_w(g.remove_node(ni(a))))),
                    _ => panic!("not wrapped"),
                }
            }
            _ => panic!("unknown mg op {}", name),
        };
        ev["ret"] = ret;
        if name == "extend_with_edges" {
            // index each listed edge ended up at (found by its unique weight)
            let ws: Vec<i64> = op["edges"].as_array().unwrap().iter().map(|t| t[2].as_i64().unwrap()).collect();
            let refs: Vec<(i64, usize)> = on!(&self.obj, g => g.edge_references().map(|e| (*e.weight() as i64, e.id().index())).collect());
            let eix: Vec<i64> = ws.iter().map(|w| refs.iter().find(|(x, _)| x == w).map(|(_, i)| *i as i64).unwrap_or(-1)).collect();
            ev["eix"] = json!(eix);
        }
        let (nc, ec, _, _) = self.counts();
        ev["nc"] = json!(nc);
        ev["ec"] = json!(ec);
        if name == "reset" {
            ev["kind"] = op["kind"].clone();
        }
        if want_st || op.get("want_st").is_some() {
            ev["st"] = self.project();
        }
        if name.starts_with("ac_") || (name == "restore" && self.is_acyclic_wrapped()) {
            let (ord, pos_inc, atpos_ok) = self.ac_info();
            ev["order"] = json!(ord);
            ev["pos_inc"] = json!(pos_inc);
            ev["atpos_ok"] = json!(atpos_ok);
        }
        log.ev(ev);
    }
}

/// TLC-readable copy of a serde_json document: null -> "none", a null edge -> [-1,-1,-1]
fn transcode(v: &Value, in_edges: bool) -> Value {
    match v {
        Value::Null => if in_edges { json!([-1, -1, -1]) } else { json!("none") },
        Value::Array(a) => Value::Array(a.iter().map(|x| transcode(x, in_edges)).collect()),
        Value::Object(o) => Value::Object(o.iter().map(|(k, x)| (k.clone(), transcode(x, k == "edges"))).collect()),
        x => x.clone(),
    }
}

/// one structural mutation of a JSON graph document; returns a description
fn mutate_json(doc: &mut Value, rng: &mut Rng, maxix: usize) -> String {
    let nn = doc["nodes"].as_array().map(|a| a.len()).unwrap_or(0);
    let nh = doc["node_holes"].as_array().map(|a| a.len()).unwrap_or(0);
    let ne = doc["edges"].as_array().map(|a| a.len()).unwrap_or(0);
    let bound = nn + nh;
    let pick_edge = |rng: &mut Rng, doc: &Value| -> Option<usize> {
        let live: Vec<usize> = (0..ne).filter(|&i| !doc["edges"][i].is_null()).collect();
        if live.is_empty() { None } else { Some(live[rng.below(live.len())]) }
    };
    match rng.below(17) {
        16 if maxix <= 300 => {
            // few present nodes, but so many declared holes that the node bound exceeds what the index type admits
            if let Some(a) = doc["node_holes"].as_array_mut() {
                let mut next = bound;
                while nn + a.len() <= maxix { a.push(json!(next)); next += 1; }
            }
            "node_holes: trailing holes push the bound past the index limit".into()
        }
        0 => { let f = *rng.pick(&["nodes", "node_holes", "edge_property", "edges"]); doc.as_object_mut().unwrap().remove(f); format!("drop field {}", f) }
        1 => { if let Some(i) = pick_edge(rng, doc) { let k = rng.below(2); doc["edges"][i][k] = json!(bound + rng.below(3)); format!("edge {} endpoint out of range", i) } else { "nop".into() } }
        2 => { if let Some(i) = pick_edge(rng, doc) { let k = rng.below(2); doc["edges"][i][k] = json!(maxix); format!("edge {} endpoint = max index", i) } else { "nop".into() } }
        3 => { // endpoint = a declared hole
            let holes: Vec<u64> = doc["node_holes"].as_array().map(|a| a.iter().filter_map(|x| x.as_u64()).collect()).unwrap_or_default();
            if let (Some(i), false) = (pick_edge(rng, doc), holes.is_empty()) { let k = rng.below(2); doc["edges"][i][k] = json!(holes[rng.below(holes.len())]); format!("edge {} endpoint = hole", i) } else { "nop".into() } }
        4 => { let p = doc["edge_property"].as_str().unwrap_or("").to_string(); doc["edge_property"] = json!(if p == "directed" { "undirected" } else { "directed" }); "edge_property flipped".into() }
        5 => { doc["edge_property"] = json!("sideways"); "edge_property unknown".into() }
        6 => { if let Some(a) = doc["node_holes"].as_array_mut() { if !a.is_empty() { let x = a[rng.below(a.len())].clone(); a.push(x); } else { a.push(json!(rng.below(bound + 1))); } } "node_holes: duplicate / extra hole".into() }
        7 => { if let Some(a) = doc["node_holes"].as_array_mut() { a.reverse(); a.insert(0, json!(bound + 2)); } "node_holes: unsorted and beyond the bound".into() }
        8 => { if let Some(a) = doc["node_holes"].as_array_mut() { a.push(json!(bound + rng.below(3))); } "node_holes: hole at/after the end".into() }
        9 => { if let Some(a) = doc["nodes"].as_array_mut() { if !a.is_empty() { let i = rng.below(a.len()); a.remove(i); } } "nodes: one removed".into() }
        10 => { if let Some(a) = doc["nodes"].as_array_mut() { a.push(json!(777)); } "nodes: one appended".into() }
        11 => { if let Some(i) = pick_edge(rng, doc) { doc["edges"][i] = Value::Null; format!("edge {} nulled", i) } else { "nop".into() } }
        12 => { let f = *rng.pick(&["nodes", "node_holes", "edges"]); doc[f] = json!(5); format!("{} retyped to a number", f) }
        13 => { if let Some(i) = pick_edge(rng, doc) { if let Some(a) = doc["edges"][i].as_array_mut() { a.pop(); } format!("edge {} truncated", i) } else { "nop".into() } }
        14 => { if let Some(i) = pick_edge(rng, doc) { let e = doc["edges"][i].clone(); doc["edges"].as_array_mut().unwrap().push(e); format!("edge {} duplicated at the end", i) } else { "nop".into() } }
        _ => { if let Some(i) = pick_edge(rng, doc) { doc["edges"][i][0] = json!(-1); format!("edge {} negative endpoint", i) } else { "nop".into() } }
    }
}

fn mutate_bytes(b: &mut Vec<u8>, rng: &mut Rng) -> String {
    if b.is_empty() { return "nop".into(); }
    match rng.below(5) {
        0 => { let n = rng.below(b.len()); b.truncate(n); format!("truncated to {} bytes", n) }
        1 => { let i = rng.below(b.len()); b[i] ^= 1 << rng.below(8); format!("bit flip at {}", i) }
        2 => { let i = rng.below(b.len().min(24)); b[i] = *rng.pick(&[0x7f, 0xff, 0x01, 0x00]); format!("length-ish byte at {} overwritten", i) }
        3 => { let i = rng.below(b.len()); let x = b[i]; b.insert(i, x); format!("byte duplicated at {}", i) }
        _ => { let i = rng.below(b.len()); b.remove(i); format!("byte removed at {}", i) }
    }
}

impl<Ix: SIx> Driver<Ix> {
    fn serde_op(&mut self, fmt: &str, to: &str, mutation: &Value, log: &mut Log, rng: &mut Rng) {
        let stable_now = self.is_stable();
        let directed = self.is_directed();
        let to_stable = match to { "graph" => false, "stable" => true, _ => stable_now };
        let mutate = mutation != "none";
        macro_rules! ser { ($g:expr) => {{ if fmt == "json" { (Some(serde_json::to_value($g).unwrap()), None) } else { (None, Some(bincode::serialize($g).unwrap())) } }}}
        let (mut doc, mut bytes): (Option<Value>, Option<Vec<u8>>) = match &self.obj {
            Obj::GD(g) => ser!(g), Obj::GU(g) => ser!(g), Obj::SD(g) => ser!(g), Obj::SU(g) => ser!(g),
            _ => panic!("serde through Acyclic is not driven"),
        };
        let (nc, ec, _, _) = self.counts();
        let mut ev = json!({"op":"ser","fmt":fmt,"ret":rs("ok"),"nc":nc,"ec":ec});
        if let Some(d) = &doc { ev["doc"] = transcode(d, false); }
        log.ev(ev);
        let mut desc = "none".to_string();
        if mutate {
            desc = match (&mut doc, &mut bytes) {
                (Some(d), _) => mutate_json(d, rng, maxix::<Ix>()),
                (_, Some(b)) => mutate_bytes(b, rng),
                _ => unreachable!(),
            };
        }
        macro_rules! de { ($T:ty) => {{
            let r: Result<Result<$T, String>, ()> = guard(|| {
                if let Some(d) = &doc { serde_json::from_value::<$T>(d.clone()).map_err(|e| e.to_string()) }
                else { bincode::deserialize::<$T>(bytes.as_ref().unwrap()).map_err(|e| e.to_string()) }
            });
            r
        }}}
        let mut de_ev = json!({"op":"de","fmt":fmt,"to": if to_stable {"stable"} else {"graph"},"mut":desc,"mutated":mutate});
        macro_rules! finish { ($r:expr, $wrap:path) => {{
            match $r {
                Err(()) => { de_ev["ret"] = rpanic(); }
                Ok(Err(_msg)) => { de_ev["ret"] = json!(["err_s", "Err"]); }
                Ok(Ok(g)) => { self.obj = $wrap(g); de_ev["ret"] = rs("ok"); }
            }
        }}}
        match (to_stable, directed) {
            (false, true) => { let r = de!(Graph<i32, i32, Directed, Ix>); finish!(r, Obj::GD) }
            (false, false) => { let r = de!(Graph<i32, i32, Undirected, Ix>); finish!(r, Obj::GU) }
            (true, true) => { let r = de!(StableGraph<i32, i32, Directed, Ix>); finish!(r, Obj::SD) }
            (true, false) => { let r = de!(StableGraph<i32, i32, Undirected, Ix>); finish!(r, Obj::SU) }
        }
        // Weights are payload: a byte mutation can turn one negative, which the spec's encoding
        // (-1 = vacant, weights >= 0) cannot represent.  Such weights are replaced by fresh serials
        // through node_weight_mut / edge_weight_mut before the result is projected; the structure
        // that came back is untouched.
        if mutate {
            let mut serial = self.serial;
            onm!(&mut self.obj, g => {
                let nis: Vec<_> = g.node_indices().collect();
                for i in nis { if let Some(w) = g.node_weight_mut(i) { if *w < 0 { serial += 1; *w = serial; } } }
                let eis: Vec<_> = g.edge_indices().collect();
                for e in eis { if let Some(w) = g.edge_weight_mut(e) { if *w < 0 { serial += 1; *w = serial; } } }
            });
            self.serial = serial;
        }
        let (nc, ec, _, _) = self.counts();
        de_ev["nc"] = json!(nc);
        de_ev["ec"] = json!(ec);
        de_ev["st"] = self.project();
        de_ev["directed_after"] = json!(self.is_directed());
        log.ev(de_ev);
    }
}

// ----------------------------------------------------------------------------------------------
// script execution / generation

pub fn exec_segment<Ix: SIx>(ixname: &str, ops: &[Value], log: &mut Log, seed: u64) {
    let mut d: Driver<Ix> = Driver::new(ixname);
    let mut rng = Rng::new(seed);
    for op in ops {
        d.apply(op, log, &mut rng);
    }
}

pub fn exec_script(script: &[Value], log: &mut Log, seed: u64) {
    let mut i = 0;
    let mut k = 0;
    while i < script.len() {
        assert_eq!(script[i]["op"], "reset", "segment must start with reset");
        let mut j = i + 1;
        while j < script.len() && script[j]["op"] != "reset" {
            j += 1;
        }
        let seg = &script[i..j];
        let ix = script[i]["ix"].as_str().unwrap_or("u32").to_string();
        k += 1;
        dispatch_ix(&ix, seg, log, seed + k);
        i = j;
    }
}

pub fn dispatch_ix(ix: &str, seg: &[Value], log: &mut Log, seed: u64) {
    match ix {
        "ix3" => exec_segment::<Ix3>(ix, seg, log, seed),
        "ix4" => exec_segment::<Ix4>(ix, seg, log, seed),
        "ix7" => exec_segment::<Ix7>(ix, seg, log, seed),
        "u8" => exec_segment::<u8>(ix, seg, log, seed),
        "u16" => exec_segment::<u16>(ix, seg, log, seed),
        "u32" => exec_segment::<u32>(ix, seg, log, seed),
        "usize" => exec_segment::<usize>(ix, seg, log, seed),
        o => panic!("bad ix {}", o),
    }
}

/// Adaptive random history: ops are chosen from the real container's current counts.
pub struct GenCfg {
    pub stable: bool,
    pub directed: bool,
    pub len: usize,
    pub max_nodes: usize,
    pub max_edges: usize,
    pub allow_convert: bool,
}

pub fn random_segment<Ix: SIx>(ixname: &str, cfg: &GenCfg, rng: &mut Rng, log: &mut Log) {
    let mut d: Driver<Ix> = Driver::new(ixname);
    let ixmax = maxix::<Ix>();
    let ctor = *rng.pick(&["with_capacity", "default", "caps"]);
    d.apply(&json!({"op":"reset","kind": if cfg.stable {"stable"} else {"graph"},"directed":cfg.directed,"ctor":ctor}), log, rng);
    let mut since_obs = 0;
    let mut steps = 0;
    // phases bias the mix: grow, churn (add/remove), shrink
    while steps < cfg.len {
        steps += 1;
        let (nc, ec, nb, eb) = d.counts();
        let phase = (steps * 3) / cfg.len.max(1);
        // node argument: mostly a live node, sometimes vacant / out of range
        let live = d.live_nodes();
        let pick_node = |rng: &mut Rng| -> usize {
            let r = rng.below(100);
            let v = if r < 90 && !live.is_empty() { live[rng.below(live.len())] } else if r < 96 { rng.below(nb + 2) } else { rng.below(ixmax.min(300) + 1) };
            v.min(ixmax)
        };
        let pick_edge = |rng: &mut Rng, d: &Driver<Ix>| -> usize {
            let r = rng.below(100);
            let le = d.live_edges();
            let v = if r < 90 && !le.is_empty() { le[rng.below(le.len())] } else if r < 96 { rng.below(eb + 2) } else { rng.below(ixmax.min(300) + 1) };
            v.min(ixmax)
        };
        let room_n = nc < cfg.max_nodes;
        let room_e = ec < cfg.max_edges;
        let r = rng.below(1000);
        let grow_bias = match phase { 0 => 250, 1 => 0, _ => -150 };
        let t_addn = 140 + grow_bias / 2;
        let t_adde = t_addn + 260 + grow_bias;
        let op: Value = if r < t_addn as usize {
            if !room_n && ixmax > cfg.max_nodes { continue; }
            if rng.chance(1, 6) { json!({"op":"add_node","via":"build"}) } else { json!({"op": if rng.chance(1,2) {"try_add_node"} else {"add_node"}}) }
        } else if r < t_adde as usize {
            if !room_e && ixmax > cfg.max_edges { continue; }
            let a = pick_node(rng);
            // favour parallel edges, reciprocal edges and self-loops
            let b = match rng.below(10) { 0 => a, _ => pick_node(rng) };
            let which = *rng.pick(&["try_add_edge", "add_edge", "add_edge", "try_update_edge", "update_edge"]);
            if rng.chance(1, 5) && !which.starts_with("try") { json!({"op": which, "a": a, "b": b, "via": "build"}) } else { json!({"op": which, "a": a, "b": b}) }
        } else if r < t_adde as usize + 90 {
            json!({"op":"remove_edge","e":pick_edge(rng, &d)})
        } else if r < t_adde as usize + 150 {
            let a = pick_node(rng);
            if !d.is_stable() && d.degree(a) > 5 { continue; } // the spec searches removal orders
            json!({"op":"remove_node","a":a})
        } else if r < t_adde as usize + 165 {
            json!({"op":"reverse"})
        } else if r < t_adde as usize + 172 {
            json!({"op":"clear_edges"})
        } else if r < t_adde as usize + 175 {
            json!({"op":"clear"})
        } else if r < t_adde as usize + 200 {
            json!({"op":"set_node_weight","a":pick_node(rng),"via":*rng.pick(&["node_weight_mut","index_mut","node_weights_mut"])})
        } else if r < t_adde as usize + 225 {
            json!({"op":"set_edge_weight","e":pick_edge(rng, &d),"via":*rng.pick(&["edge_weight_mut","index_mut","edge_weights_mut"])})
        } else if r < t_adde as usize + 240 {
            json!({"op":"index_twice_ne","a":pick_node(rng),"e":pick_edge(rng, &d)})
        } else if r < t_adde as usize + 255 {
            json!({"op":"index_twice_nn","a":pick_node(rng),"b":pick_node(rng)})
        } else if r < t_adde as usize + 275 {
            if rng.chance(1, 4) { json!({"op":"from_elements"}) } else { json!({"op":"noeffect","which":*rng.pick(&["clone","clone_from","reserve","shrink","capacity"]),"x":rng.below(9)}) }
        } else if r < t_adde as usize + 290 {
            if d.is_stable() { continue; }
            json!({"op":"into_edge_type","d":rng.chance(1,2)})
        } else if r < t_adde as usize + 310 {
            // retain: only when every weight is unique and (Graph) degrees are small
            if !d.is_stable() && live.iter().any(|&a| d.degree(a) > 5) { continue; }
            let m = 2 + rng.below(4);
            json!({"op":"retain","kind": if rng.chance(1,2) {"node"} else {"edge"},"m":m,"r":rng.below(m)})
        } else if r < t_adde as usize + 325 {
            let k = 1 + rng.below(3);
            if ec + k > cfg.max_edges.min(ixmax) { continue; }
            let lim = (nb + 2).min(cfg.max_nodes).min(ixmax);
            if lim == 0 { continue; }
            let mut edges = vec![];
            for _ in 0..k {
                let w = d.fresh();
                edges.push(json!([rng.below(lim), rng.below(lim), w]));
            }
            json!({"op":"extend_with_edges","edges":edges})
        } else if r < t_adde as usize + 337 {
            json!({"op":"map"})
        } else if r < t_adde as usize + 352 {
            let m = 2 + rng.below(4);
            json!({"op":"filter_map","m":m,"r":rng.below(m)})
        } else if r < t_adde as usize + 365 {
            if !cfg.allow_convert { continue; }
            if d.is_stable() { json!({"op":"to_graph"}) } else { json!({"op":"to_stable"}) }
        } else {
            json!({"op":"obs"})
        };
        let is_extend = op["op"] == "extend_with_edges";
        let is_obs = op["op"] == "obs";
        d.apply(&op, log, rng);
        if is_extend {
            // nodes created with the default weight 0: give each a unique weight again
            for a in d.live_nodes() {
                let w0 = on!(&d.obj, g => *g.node_weight(ni(a)).unwrap());
                if w0 == 0 {
                    d.apply(&json!({"op":"set_node_weight","a":a}), log, rng);
                }
            }
        }
        since_obs = if is_obs { 0 } else { since_obs + 1 };
        if since_obs >= 12 {
            d.apply(&json!({"op":"obs"}), log, rng);
            since_obs = 0;
        }
    }
    d.apply(&json!({"op":"obs"}), log, rng);
}

/// Vacancy-stress scenario: fill up, punch holes, apply one whole-graph operation, then refill until
/// the index type is exhausted (two failing calls), observing at each stage.  Targets the free-list
/// bookkeeping of StableGraph and the swap-renumbering of Graph right at the index limit.
pub fn scenario_segment<Ix: SIx>(ixname: &str, stable: bool, directed: bool, rng: &mut Rng, log: &mut Log) {
    let mut d: Driver<Ix> = Driver::new(ixname);
    let ixmax = maxix::<Ix>();
    assert!(ixmax <= 16);
    d.apply(&json!({"op":"reset","kind": if stable {"stable"} else {"graph"},"directed":directed,"ctor":"with_capacity"}), log, rng);
    let rounds = 1 + rng.below(3);
    for _ in 0..rounds {
        // fill nodes, then edges
        let nn = 1 + rng.below(ixmax);
        for _ in 0..nn {
            d.apply(&json!({"op": if rng.chance(1,2) {"try_add_node"} else {"add_node"}}), log, rng);
        }
        let ne = rng.below(ixmax + 1);
        for _ in 0..ne {
            let ln = d.live_nodes();
            if ln.is_empty() { break; }
            let a = ln[rng.below(ln.len())];
            let b = if rng.chance(1, 5) { a } else { ln[rng.below(ln.len())] };
            d.apply(&json!({"op": *rng.pick(&["try_add_edge","add_edge","update_edge"]),"a":a,"b":b}), log, rng);
        }
        // punch holes
        for _ in 0..rng.below(4) {
            if rng.chance(1, 2) {
                let le = d.live_edges();
                if !le.is_empty() { d.apply(&json!({"op":"remove_edge","e":le[rng.below(le.len())]}), log, rng); }
            } else {
                let ln = d.live_nodes();
                if !ln.is_empty() { d.apply(&json!({"op":"remove_node","a":ln[rng.below(ln.len())]}), log, rng); }
            }
        }
        // probe every vacant (or just out-of-range) index as an endpoint of the fallible edge calls: they must answer
        // Err / None and change nothing, whatever the vacant slot's recycled link fields happen to contain
        let (_, _, nb0, _) = d.counts();
        let live0 = d.live_nodes();
        let vac: Vec<usize> = (0..=nb0.min(ixmax)).filter(|i| !live0.contains(i)).collect();
        for &a in vac.iter().take(3) {
            for b in 0..=nb0.min(ixmax).min(4) {
                let (x, y) = if rng.chance(1, 2) { (a, b) } else { (b, a) };
                d.apply(&json!({"op": *rng.pick(&["try_update_edge", "try_add_edge", "try_update_edge"]),"a":x,"b":y}), log, rng);
            }
        }
        if !vac.is_empty() { d.apply(&json!({"op":"obs"}), log, rng); }
        // one whole-graph operation
        let m = 2 + rng.below(3);
        let op = match rng.below(9) {
            0 | 1 | 2 => json!({"op":"reverse"}),
            3 => json!({"op":"clear_edges"}),
            4 => json!({"op":"map"}),
            5 => json!({"op":"filter_map","m":m,"r":rng.below(m)}),
            6 => json!({"op":"retain","kind": if rng.chance(1,2) {"node"} else {"edge"},"m":m,"r":rng.below(m)}),
            7 => json!({"op":"noeffect","which":*rng.pick(&["clone","clone_from"])}),
            _ => if d.is_stable() { json!({"op":"to_graph"}) } else { json!({"op":"to_stable"}) },
        };
        d.apply(&op, log, rng);
        d.apply(&json!({"op":"obs"}), log, rng);
        // refill until the limit answers twice
        let mut fails = 0;
        let mut guard_ = 0;
        while fails < 2 && guard_ < 2 * ixmax + 4 {
            guard_ += 1;
            let before = d.counts().0;
            d.apply(&json!({"op":"try_add_node"}), log, rng);
            if d.counts().0 == before { fails += 1; }
        }
        let mut fails = 0;
        let mut guard_ = 0;
        while fails < 2 && guard_ < 2 * ixmax + 4 {
            guard_ += 1;
            let ln = d.live_nodes();
            if ln.is_empty() { break; }
            let before = d.counts().1;
            d.apply(&json!({"op":"try_add_edge","a":ln[rng.below(ln.len())],"b":ln[rng.below(ln.len())]}), log, rng);
            if d.counts().1 == before { fails += 1; }
        }
        d.apply(&json!({"op":"obs"}), log, rng);
        if rng.chance(1, 2) {
            // convert back so that the next round starts in the segment's own container kind
            if stable && !d.is_stable() { d.apply(&json!({"op":"to_stable"}), log, rng); }
            if !stable && d.is_stable() { d.apply(&json!({"op":"to_graph"}), log, rng); }
        }
    }
    d.apply(&json!({"op":"obs"}), log, rng);
}

pub fn gen_scenarios(seed: u64, segments: usize, stable: bool, log: &mut Log) {
    let mut rng = Rng::new(seed ^ 0x5ce);
    for i in 0..segments {
        let directed = i % 2 == 0;
        match i % 3 {
            0 => scenario_segment::<Ix3>("ix3", stable, directed, &mut rng, log),
            1 => scenario_segment::<Ix4>("ix4", stable, directed, &mut rng, log),
            _ => scenario_segment::<Ix7>("ix7", stable, directed, &mut rng, log),
        }
    }
}

/// C14: histories on Acyclic<DiGraph> / Acyclic<StableDiGraph>: build a (possibly cyclic) graph, wrap it,
/// then add nodes / edges (forward, backward, self, cycle-closing), remove edges and nodes (non-last,
/// absent, repeated), re-wrap after unwrapping and mutating.
pub fn acyclic_segment<Ix: SIx>(ixname: &str, stable: bool, len: usize, rng: &mut Rng, log: &mut Log) {
    let mut d: Driver<Ix> = Driver::new(ixname);
    let ixmax = maxix::<Ix>();
    d.apply(&json!({"op":"reset","kind": if stable {"stable"} else {"graph"},"directed":true,"ctor":"with_capacity"}), log, rng);
    // one segment in five: the wrapper is created empty through Create::with_capacity and filled through its own API
    let from_empty = rng.chance(1, 5);
    if from_empty {
        d.apply(&json!({"op":"ac_wrap","via":"with_capacity"}), log, rng);
    }
    // initial graph: a few nodes, edges mostly low -> high (acyclic) and sometimes not
    if !from_empty {
    let n0 = 1 + rng.below(5.min(ixmax));
    for _ in 0..n0 { d.apply(&json!({"op":"add_node"}), log, rng); }
    let cyclic_start = rng.chance(1, 4);
    for _ in 0..rng.below(6) {
        let (a, b) = (rng.below(n0), rng.below(n0));
        let (a, b) = if cyclic_start || a < b { (a, b) } else { (b, a) };
        if a == b && !cyclic_start { continue; }
        d.apply(&json!({"op":"add_edge","a":a,"b":b}), log, rng);
    }
    if stable && rng.chance(1, 2) && n0 > 1 {
        d.apply(&json!({"op":"remove_node","a":rng.below(n0)}), log, rng);   // a vacancy before wrapping
    }
    d.apply(&json!({"op":"ac_wrap","via": if rng.chance(1,2) {"try_from"} else {"try_from_graph"}}), log, rng);
    }
    let mut steps = 0;
    while steps < len {
        steps += 1;
        if !d.is_acyclic_wrapped() {
            // not wrapped (cyclic, or unwrapped on purpose): break a cycle / mutate, then try again
            let le = d.live_edges();
            if !le.is_empty() && rng.chance(2, 3) {
                d.apply(&json!({"op":"remove_edge","e":le[rng.below(le.len())]}), log, rng);
            } else {
                let ln = d.live_nodes();
                if ln.len() >= 2 && rng.chance(1, 2) {
                    d.apply(&json!({"op":"add_edge","a":ln[rng.below(ln.len())],"b":ln[rng.below(ln.len())]}), log, rng);
                } else if d.counts().0 < ixmax.min(7) {
                    d.apply(&json!({"op":"add_node"}), log, rng);
                }
            }
            d.apply(&json!({"op":"ac_wrap","via": if rng.chance(1,2) {"try_from"} else {"try_from_graph"}}), log, rng);
            continue;
        }
        let ln = d.live_nodes();
        let (nc, ec, nb, eb) = d.counts();
        let r = rng.below(100);
        let op = if r < 14 {
            if nc >= ixmax.min(8) { continue; }
            json!({"op":"ac_add_node"})
        } else if r < 62 {
            if ln.is_empty() || ec >= ixmax.min(14) { continue; }
            let a = ln[rng.below(ln.len())];
            let b = if rng.chance(1, 10) { a } else { ln[rng.below(ln.len())] };
            json!({"op": *rng.pick(&["ac_try_add_edge","ac_try_add_edge","ac_try_update_edge","ac_build_add_edge","ac_build_update_edge"]),"a":a,"b":b})
        } else if r < 72 {
            let le = d.live_edges();
            let e = if !le.is_empty() && rng.chance(4, 5) { le[rng.below(le.len())] } else { rng.below(eb + 2) };
            json!({"op":"ac_remove_edge","e":e.min(ixmax)})
        } else if r < 86 {
            // present (often not the last index), absent, or a repeat of an earlier removal
            let a = if !ln.is_empty() && rng.chance(3, 4) { ln[rng.below(ln.len())] } else { rng.below(nb + 2) };
            if !stable && d.degree(a) > 5 { continue; }
            json!({"op":"ac_remove_node","a":a.min(ixmax)})
        } else if r < 90 {
            json!({"op":"noeffect","which":"clone"})
        } else if r < 93 {
            json!({"op":"ac_unwrap"})
        } else {
            json!({"op":"obs"})
        };
        d.apply(&op, log, rng);
        if steps % 9 == 8 {
            d.apply(&json!({"op":"obs"}), log, rng);
        }
    }
    d.apply(&json!({"op":"obs"}), log, rng);
}

/// C14: histories shaped to leave the wrapper's DFS scratch maps SMALLER than the graph: they are sized when the graph
/// is wrapped (or at the last reorder); afterwards nodes are added and connected only by edges that already agree with
/// the order (no reorder, no DFS), a low index is vacated (Graph: the last node moves into it; StableGraph: the next
/// add_node reuses it) so that a low-index node sits late in the order, and only then edges against the order are
/// tried - their cones must be walked across nodes the maps were never sized for.
pub fn acyclic_stale_segment<Ix: SIx>(ixname: &str, stable: bool, rng: &mut Rng, log: &mut Log) {
    let mut d: Driver<Ix> = Driver::new(ixname);
    let ixmax = maxix::<Ix>();
    d.apply(&json!({"op":"reset","kind": if stable {"stable"} else {"graph"},"directed":true,"ctor":"with_capacity"}), log, rng);
    let n0 = 1 + rng.below(3.min(ixmax));
    for _ in 0..n0 { d.apply(&json!({"op":"add_node"}), log, rng); }
    if n0 >= 2 && rng.chance(1, 2) { d.apply(&json!({"op":"add_edge","a":0,"b":1}), log, rng); }
    d.apply(&json!({"op":"ac_wrap","via": if rng.chance(1,2) {"try_from"} else {"try_from_graph"}}), log, rng);
    if !d.is_acyclic_wrapped() { return; }
    // possibly one reorder while the graph is still small
    if n0 >= 2 && rng.chance(1, 2) {
        let o = d.ac_order();
        d.apply(&json!({"op":"ac_try_add_edge","a":o[o.len() - 1],"b":o[0]}), log, rng);
    }
    for round in 0..(1 + rng.below(3)) {
        for _ in 0..(2 + rng.below(3)) {
            if d.counts().0 < ixmax.min(8) { d.apply(&json!({"op":"ac_add_node"}), log, rng); }
        }
        // edges along the current order only
        for _ in 0..(2 + rng.below(5)) {
            let o = d.ac_order();
            if o.len() < 2 || d.counts().1 >= ixmax.min(14) { break; }
            let i = rng.below(o.len() - 1);
            let j = i + 1 + rng.below(o.len() - 1 - i);
            d.apply(&json!({"op": *rng.pick(&["ac_try_add_edge","ac_try_update_edge","ac_build_add_edge"]),"a":o[i],"b":o[j]}), log, rng);
        }
        // vacate a low index; the StableGraph reuses it for a new node that goes to the end of the order
        let ln = d.live_nodes();
        if ln.len() >= 2 && rng.chance(4, 5) {
            let a = ln[rng.below(ln.len().min(1 + n0))];
            if stable || d.degree(a) <= 5 { d.apply(&json!({"op":"ac_remove_node","a":a}), log, rng); }
            if stable && rng.chance(3, 4) { d.apply(&json!({"op":"ac_add_node"}), log, rng); }
        }
        // now edges against the order, low indices first
        for _ in 0..(1 + rng.below(3) + round) {
            let o = d.ac_order();
            if o.len() < 2 || d.counts().1 >= ixmax.min(14) { break; }
            let mut lows: Vec<usize> = o.iter().cloned().filter(|&x| x < n0.max(2)).collect();
            if lows.is_empty() || rng.chance(1, 4) { lows = o.clone(); }
            let a = lows[rng.below(lows.len())];
            let pa = o.iter().position(|&x| x == a).unwrap();
            if pa == 0 { continue; }
            let b = o[rng.below(pa)];
            d.apply(&json!({"op": *rng.pick(&["ac_try_add_edge","ac_try_add_edge","ac_try_update_edge","ac_build_add_edge","ac_build_update_edge"]),"a":a,"b":b}), log, rng);
        }
        d.apply(&json!({"op":"obs"}), log, rng);
    }
}

/// C17: histories that leave vacancies, then serde round trips (JSON / bincode, same type and across
/// Graph <-> StableGraph), mutated streams, and further use of whatever came back.
pub fn serde_segment<Ix: SIx>(ixname: &str, stable: bool, directed: bool, len: usize, rng: &mut Rng, log: &mut Log) {
    let mut d: Driver<Ix> = Driver::new(ixname);
    let ixmax = maxix::<Ix>();
    d.apply(&json!({"op":"reset","kind": if stable {"stable"} else {"graph"},"directed":directed,"ctor":"with_capacity"}), log, rng);
    // mostly stay one below the index limit: a completely full graph does not round-trip (recorded
    // finding), and that would end the segment early; one segment in five goes to the limit
    let slack = if rng.chance(1, 5) { 0 } else { 1 };
    let cap_n = (ixmax - slack).min(7);
    let cap_e = (ixmax - slack).min(10);
    let mut steps = 0;
    while steps < len {
        steps += 1;
        let (nc, ec, nb, eb) = d.counts();
        let ln = d.live_nodes();
        let r = rng.below(100);
        let op = if r < 22 {
            if nc >= cap_n { continue; }
            json!({"op":"add_node"})
        } else if r < 50 {
            if ln.is_empty() || ec >= cap_e { continue; }
            let a = ln[rng.below(ln.len())];
            let b = if rng.chance(1, 8) { a } else { ln[rng.below(ln.len())] };
            json!({"op":"add_edge","a":a,"b":b})
        } else if r < 58 {
            let le = d.live_edges();
            if le.is_empty() { continue; }
            json!({"op":"remove_edge","e":le[rng.below(le.len())]})
        } else if r < 66 {
            if ln.is_empty() { continue; }
            let a = ln[rng.below(ln.len())];
            if !d.is_stable() && d.degree(a) > 5 { continue; }
            json!({"op":"remove_node","a":a})
        } else if r < 92 {
            let fmt = if rng.chance(3, 5) { "json" } else { "bincode" };
            let to = *rng.pick(&["same", "same", "graph", "stable"]);
            let mutated = rng.chance(1, 2);
            json!({"op":"serde","fmt":fmt,"to":to,"mut": if mutated {"random"} else {"none"}})
        } else {
            json!({"op":"obs"})
        };
        let was_serde = op["op"] == "serde";
        d.apply(&op, log, rng);
        if was_serde {
            // use what came back: observe, then exercise the rebuilt free lists (retain_* checks them in
            // debug builds; extend_with_edges occupies a named vacancy that need not be the list head)
            d.apply(&json!({"op":"obs"}), log, rng);
            if d.is_stable() && rng.chance(2, 3) {
                let (_, ec2, nb2, _) = d.counts();
                // retain_* is specified through unique weights: a mutated stream may have duplicated one
                let st = d.project();
                let uniq = |v: Vec<i64>| { let mut s = v.clone(); s.sort(); s.dedup(); s.len() == v.len() };
                let nws: Vec<i64> = st["nd"].as_array().unwrap().iter().filter_map(|x| x.as_i64()).filter(|&x| x >= 0).collect();
                let ews: Vec<i64> = st["ed"].as_array().unwrap().iter().filter_map(|x| x[2].as_i64()).filter(|&x| x >= 0).collect();
                if rng.chance(1, 2) && uniq(nws) && uniq(ews) {
                    d.apply(&json!({"op":"retain","kind": if rng.chance(1,2) {"node"} else {"edge"},"m":1000003,"r":1000002}), log, rng);
                }
                let vac: Vec<usize> = (0..nb2).filter(|i| !d.live_nodes().contains(i)).collect();
                if !vac.is_empty() && ec2 + 1 < cap_e {
                    let v = vac[rng.below(vac.len())];
                    let ln2 = d.live_nodes();
                    let other = if ln2.is_empty() { v } else { ln2[rng.below(ln2.len())] };
                    let w = d.fresh();
                    d.apply(&json!({"op":"extend_with_edges","edges":[[v, other, w]]}), log, rng);
                    for a in d.live_nodes() {
                        let w0 = on!(&d.obj, g => *g.node_weight(ni(a)).unwrap());
                        if w0 == 0 { d.apply(&json!({"op":"set_node_weight","a":a}), log, rng); }
                    }
                    if d.counts().0 < cap_n { d.apply(&json!({"op":"add_node"}), log, rng); }
                    if d.counts().0 < cap_n { d.apply(&json!({"op":"add_node"}), log, rng); }
                    d.apply(&json!({"op":"obs"}), log, rng);
                }
            }
        }
        let _ = (nb, eb);
    }
    d.apply(&json!({"op":"obs"}), log, rng);
}

pub fn gen_serde(seed: u64, segments: usize, len: usize, log: &mut Log) {
    let mut rng = Rng::new(seed ^ 0x5e4de);
    for i in 0..segments {
        let stable = i % 2 == 0;
        let directed = (i / 2) % 2 == 0;
        match i % 5 {
            0 => serde_segment::<u32>("u32", stable, directed, len, &mut rng, log),
            1 => serde_segment::<u8>("u8", stable, directed, len, &mut rng, log),
            2 => serde_segment::<u16>("u16", stable, directed, len, &mut rng, log),
            3 => serde_segment::<Ix4>("ix4", stable, directed, len, &mut rng, log),   // streams at the index limit
            _ => serde_segment::<Ix7>("ix7", stable, directed, len, &mut rng, log),
        }
    }
}

/// spec -> code: replay TLC-generated histories (one per abstract state of GraphCover / StableCover) and
/// fork every call of the alphabet from the reached state.
pub fn cover_replay(scripts: &[Value], stride: usize, offset: usize, log: &mut Log, seed: u64) {
    let mut rng = Rng::new(seed);
    for (k, hist) in scripts.iter().enumerate() {
        if k % stride != offset % stride {
            continue;
        }
        let ops = hist.as_array().unwrap();
        let mut d: Driver<Ix3> = Driver::new("ix3");
        for op in ops {
            let mut o = op.clone();
            if o["op"] == "reset" { o["ctor"] = json!("with_capacity"); }
            d.apply(&o, log, &mut rng);
        }
        d.apply(&json!({"op":"obs"}), log, &mut rng);
        d.apply(&json!({"op":"save"}), log, &mut rng);
        let (_, _, nb, eb) = d.counts();
        let stable = d.is_stable();
        let mut fan: Vec<Value> = vec![json!({"op":"try_add_node"}), json!({"op":"add_node"}), json!({"op":"reverse"}),
            json!({"op":"clear_edges"}), json!({"op":"clear"}), json!({"op":"map"}), json!({"op":"filter_map","m":2,"r":0}),
            json!({"op":"filter_map","m":2,"r":1}), json!({"op":"retain","kind":"node","m":2,"r":0}), json!({"op":"retain","kind":"edge","m":2,"r":1}),
            json!({"op":"noeffect","which":"clone_from","x":1}), json!({"op":"noeffect","which":"clone_from","x":2}), json!({"op":"serde","fmt":"json","to":"same","mut":"none"}),
            json!({"op":"serde","fmt":"bincode","to": if stable {"graph"} else {"stable"},"mut":"none"}),
            json!({"op": if stable {"to_graph"} else {"to_stable"}}), json!({"op":"from_elements"}), json!({"op":"add_node","via":"build"})];
        if !stable { fan.push(json!({"op":"into_edge_type","d":true})); fan.push(json!({"op":"into_edge_type","d":false})); }
        for a in 0..=nb.min(3) {
            fan.push(json!({"op":"remove_node","a":a}));
            fan.push(json!({"op":"set_node_weight","a":a,"via":"node_weight_mut"}));
            for b in 0..=nb.min(3) {
                for w in ["add_edge", "try_add_edge", "update_edge", "try_update_edge"] { fan.push(json!({"op":w,"a":a,"b":b})); }
                for w in ["add_edge", "update_edge"] { fan.push(json!({"op":w,"a":a,"b":b,"via":"build"})); }
                fan.push(json!({"op":"index_twice_nn","a":a,"b":b}));
            }
            for e in 0..=eb.min(3) { fan.push(json!({"op":"index_twice_ne","a":a,"e":e})); }
        }
        for e in 0..=eb.min(3) {
            fan.push(json!({"op":"remove_edge","e":e}));
            fan.push(json!({"op":"set_edge_weight","e":e,"via":"index_mut"}));
        }
        if nb >= 1 && nb <= 2 && d.counts().1 < 3 { let w = d.fresh(); fan.push(json!({"op":"extend_with_edges","edges":[[0, nb, w]]})); }
        // a completely full graph does not round-trip through serde (recorded finding of C17): not forked here
        if nb >= 3 || eb >= 3 { fan.retain(|o| o["op"] != "serde"); }
        for (j, op) in fan.iter().enumerate() {
            d.apply(&json!({"op":"restore"}), log, &mut rng);
            let mut o = op.clone();
            o["want_st"] = json!(true);
            d.apply(&o, log, &mut rng);
            if j % 3 == 0 { d.apply(&json!({"op":"obs"}), log, &mut rng); }
        }
    }
}

pub fn gen_acyclic(seed: u64, segments: usize, len: usize, log: &mut Log) {
    let mut rng = Rng::new(seed ^ 0xac1c);
    for i in 0..segments {
        let stable = i % 2 == 1;
        if i % 5 == 4 {
            if i % 3 == 0 { acyclic_stale_segment::<Ix7>("ix7", stable, &mut rng, log) } else { acyclic_stale_segment::<u32>("u32", stable, &mut rng, log) }
            continue;
        }
        match i % 4 {
            0 | 1 => acyclic_segment::<u32>("u32", stable, len, &mut rng, log),
            2 => acyclic_segment::<Ix7>("ix7", stable, len, &mut rng, log),
            _ => acyclic_segment::<u8>("u8", stable, len, &mut rng, log),
        }
    }
}

pub fn gen_random(seed: u64, segments: usize, len: usize, stable: bool, log: &mut Log) {
    let mut rng = Rng::new(seed);
    for i in 0..segments {
        let directed = i % 2 == 0;
        let allow_convert = i % 3 == 0;
        let cfg = |mn: usize, me: usize, l: usize| GenCfg { stable, directed, len: l, max_nodes: mn, max_edges: me, allow_convert };
        match i % 7 {
            0 => random_segment::<Ix3>("ix3", &cfg(3, 3, len / 2), &mut rng, log),
            1 => random_segment::<Ix4>("ix4", &cfg(4, 4, len / 2), &mut rng, log),
            2 => random_segment::<Ix7>("ix7", &cfg(7, 7, len), &mut rng, log),
            3 => random_segment::<u16>("u16", &cfg(8, 16, len), &mut rng, log),
            4 => random_segment::<u32>("u32", &cfg(6, 12, len), &mut rng, log),
            5 => random_segment::<usize>("usize", &cfg(12, 24, len), &mut rng, log),
            _ => random_segment::<u8>("u8", &cfg(10, 20, len), &mut rng, log),
        }
    }
}

/// u8 histories that fill the node and edge index space (255 each) and keep operating at the limit.
pub fn gen_u8_limit(seed: u64, stable: bool, directed: bool, log: &mut Log) {
    let mut rng = Rng::new(seed);
    let mut d: Driver<u8> = Driver::new("u8");
    d.apply(&json!({"op":"reset","kind": if stable {"stable"} else {"graph"},"directed":directed,"ctor":"with_capacity"}), log, &mut rng);
    for _ in 0..253 {
        d.apply(&json!({"op":"add_node"}), log, &mut rng);
    }
    for _ in 0..4 {
        d.apply(&json!({"op":"try_add_node"}), log, &mut rng);
    }
    d.apply(&json!({"op":"add_node"}), log, &mut rng);
    for i in 0..253 {
        let a = rng.below(255);
        let b = if i % 9 == 0 { a } else { rng.below(255) };
        d.apply(&json!({"op":"add_edge","a":a,"b":b}), log, &mut rng);
    }
    d.apply(&json!({"op":"obs"}), log, &mut rng);
    for _ in 0..4 {
        d.apply(&json!({"op":"try_add_edge","a":rng.below(255),"b":rng.below(255)}), log, &mut rng);
    }
    d.apply(&json!({"op":"try_update_edge","a":rng.below(255),"b":rng.below(255)}), log, &mut rng);
    d.apply(&json!({"op":"add_edge","a":1,"b":2}), log, &mut rng);
    d.apply(&json!({"op":"update_edge","a":254,"b":254}), log, &mut rng);
    d.apply(&json!({"op":"obs"}), log, &mut rng);
    // churn at the limit
    for step in 0..120 {
        let (nc, ec, _, _) = d.counts();
        let r = rng.below(10);
        let op = if r < 3 && ec > 0 {
            let le = d.live_edges();
            json!({"op":"remove_edge","e":le[rng.below(le.len())]})
        } else if r < 5 && nc > 0 {
            let ln = d.live_nodes();
            let a = ln[rng.below(ln.len())];
            if !stable && d.degree(a) > 5 { continue; }
            json!({"op":"remove_node","a":a})
        } else if r < 7 {
            if rng.chance(1, 6) { json!({"op":"add_node","via":"build"}) } else { json!({"op": if rng.chance(1,2) {"try_add_node"} else {"add_node"}}) }
        } else {
            let ln = d.live_nodes();
            if ln.is_empty() { continue; }
            json!({"op": *rng.pick(&["try_add_edge","add_edge","try_update_edge"]),"a":ln[rng.below(ln.len())],"b":ln[rng.below(ln.len())]})
        };
        d.apply(&op, log, &mut rng);
        if step % 20 == 19 {
            d.apply(&json!({"op":"obs"}), log, &mut rng);
        }
    }
    d.apply(&json!({"op":"obs"}), log, &mut rng);
}

/// the data::Element stream of a graph whose node indices are compact: nodes in index order, then edges in index order
fn elems_of<G, N: Clone, E: Clone>(g: G) -> Vec<petgraph::data::Element<N, E>>
where
    G: petgraph::visit::IntoNodeReferences + petgraph::visit::IntoEdgeReferences + petgraph::visit::NodeIndexable + petgraph::visit::Data<NodeWeight = N, EdgeWeight = E>,
{
    use petgraph::visit::{EdgeRef, NodeRef};
    let mut v = vec![];
    let mut pos = std::collections::HashMap::new();
    for (k, n) in g.node_references().enumerate() {
        pos.insert(g.to_index(n.id()), k);
        v.push(petgraph::data::Element::Node { weight: n.weight().clone() });
    }
    for e in g.edge_references() {
        v.push(petgraph::data::Element::Edge { source: pos[&g.to_index(e.source())], target: pos[&g.to_index(e.target())], weight: e.weight().clone() });
    }
    v
}

/// AcyclicPK.tla -> implementation: every distinct state of the model comes with the history that reaches it.
/// The history is replayed on the real Acyclic wrapper, the order the model predicts is compared (reported only:
/// C14 does not fix which valid order is kept), and every call of the alphabet is forked from the reached state.
pub fn accover_replay(scripts: &[Value], stride: usize, offset: usize, log: &mut Log, seed: u64) {
    let mut rng = Rng::new(seed);
    for (k, sc) in scripts.iter().enumerate() {
        if k % stride != offset % stride {
            continue;
        }
        let compact = sc["compact"].as_bool().unwrap();
        let mut d: Driver<Ix7> = Driver::new("ix7");
        d.apply(&json!({"op":"reset","kind": if compact {"graph"} else {"stable"},"directed":true,"ctor":"with_capacity"}), log, &mut rng);
        d.apply(&json!({"op":"ac_wrap","via": if k % 2 == 0 {"try_from"} else {"try_from_graph"}}), log, &mut rng);
        let translate = |d: &Driver<Ix7>, op: &Value| -> Option<Value> {
            match op["op"].as_str().unwrap() {
                "ac_add_node" => Some(json!({"op":"ac_add_node"})),
                "ac_remove_edge_between" => d.find_edge_ix(u(op, "a"), u(op, "b")).map(|e| json!({"op":"ac_remove_edge","e":e})),
                "ac_remove_node" => Some(json!({"op":"ac_remove_node","a":u(op, "a")})),
                o => Some(json!({"op":o,"a":u(op, "a"),"b":u(op, "b")})),
            }
        };
        let mut followed = true;
        for op in sc["hist"].as_array().unwrap() {
            match translate(&d, op) {
                Some(o) => d.apply(&o, log, &mut rng),
                None => { followed = false; break; }   // the real graph has no such edge: it already left the model's path
            }
        }
        let want: Vec<usize> = sc["order"].as_array().unwrap().iter().map(|x| x.as_u64().unwrap() as usize).collect();
        let agree = followed && d.ac_order() == want;
        d.apply(&json!({"op":"obs"}), log, &mut rng);
        d.apply(&json!({"op":"save","pk_agree":agree}), log, &mut rng);
        let (_, _, nb, eb) = d.counts();
        let mut fan: Vec<Value> = vec![json!({"op":"ac_add_node"})];
        for a in 0..=nb.min(5) {
            fan.push(json!({"op":"ac_remove_node","a":a}));
        }
        let live = d.live_nodes();
        for &a in &live {
            for &b in &live {
                let which = ["ac_try_add_edge", "ac_try_update_edge", "ac_build_add_edge", "ac_build_update_edge"];
                fan.push(json!({"op":which[(a + 2 * b + k) % 4],"a":a,"b":b}));
                if a != b { fan.push(json!({"op":which[(a + 2 * b + k + 1) % 4],"a":a,"b":b})); }
            }
        }
        for e in 0..=eb.min(7) {
            fan.push(json!({"op":"ac_remove_edge","e":e}));
        }
        for (j, f) in fan.iter().enumerate() {
            d.apply(&json!({"op":"restore"}), log, &mut rng);
            d.apply(f, log, &mut rng);
            if j % 2 == 0 { d.apply(&json!({"op":"obs"}), log, &mut rng); }
        }
    }
}

fn raw_json<Ty: petgraph::EdgeType, Ix: IndexType>(g: &Graph<i32, i32, Ty, Ix>) -> Value {
    let nodes: Vec<i32> = g.raw_nodes().iter().map(|n| n.weight).collect();
    let edges: Vec<Value> = g.raw_edges().iter().map(|e| json!([e.source().index(), e.target().index(), e.weight])).collect();
    let chain = |a: usize, d: petgraph::Direction| -> Vec<usize> {
        let mut v = vec![];
        let mut e = g.first_edge(ni(a), d);
        while let Some(x) = e {
            v.push(x.index());
            if v.len() > 4096 { break; }   // a cyclic chain: reported through the length
            e = g.next_edge(x, d);
        }
        v
    };
    let n = g.node_count().min(12);
    let co: Vec<Vec<usize>> = (0..n).map(|a| chain(a, Outgoing)).collect();
    let ci: Vec<Vec<usize>> = (0..n).map(|a| chain(a, Incoming)).collect();
    let (pn, pe) = g.clone().into_nodes_edges();
    let ine_nodes: Vec<i32> = pn.iter().map(|n| n.weight).collect();
    let ine_edges: Vec<Value> = pe.iter().map(|e| json!([e.source().index(), e.target().index(), e.weight])).collect();
    json!({"nodes": nodes, "edges": edges, "co": co, "ci": ci, "ine_nodes": ine_nodes, "ine_edges": ine_edges})
}
