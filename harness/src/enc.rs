//! Encodings of one abstract graph in every petgraph container, through several histories
//! (C07): fresh in order, shuffled insertion, insert-with-garbage-then-remove (leaves vacant
//! indices in StableGraph / MatrixGraph, swap-renumbering in Graph / GraphMap).
//! `fwd[i]` is the container's node id of abstract node i.
use crate::common::*;
use petgraph::adj::List;
use petgraph::csr::Csr;
use petgraph::graph::{Graph, NodeIndex};
use petgraph::graphmap::GraphMap;
use petgraph::matrix_graph::MatrixGraph;
use petgraph::stable_graph::StableGraph;
use petgraph::EdgeType;
use serde_json::{json, Value};

#[derive(Clone, Debug)]
pub struct AG {
    pub n: usize,
    pub directed: bool,
    pub edges: Vec<(usize, usize, i64)>,
}

pub const GARBAGE_W: i64 = -999_983;

/// edge weight types the encodings can be built with (floats are exact: small integers)
pub trait EW: Copy + PartialEq + PartialOrd + std::fmt::Debug + 'static {
    fn from_i64(x: i64) -> Self;
    fn to_i64(self) -> i64;
}
impl EW for i64 {
    fn from_i64(x: i64) -> Self { x }
    fn to_i64(self) -> i64 { self }
}
impl EW for i32 {
    fn from_i64(x: i64) -> Self { x as i32 }
    fn to_i64(self) -> i64 { self as i64 }
}
impl EW for u32 {
    fn from_i64(x: i64) -> Self { if x == GARBAGE_W { 4_000_000 } else { x as u32 } }
    fn to_i64(self) -> i64 { self as i64 }
}
impl EW for f64 {
    fn from_i64(x: i64) -> Self { x as f64 }
    fn to_i64(self) -> i64 { if self.is_infinite() { INF } else { self as i64 } }
}
impl EW for f32 {
    fn from_i64(x: i64) -> Self { x as f32 }
    fn to_i64(self) -> i64 { if self.is_infinite() { INF } else { self as i64 } }
}
/// "infinite" / max() distance as recorded for the oracles
pub const INF: i64 = 1_000_000_000;

impl AG {
    /// no two edges between the same ordered (unordered if undirected) pair
    pub fn is_simple(&self) -> bool {
        let mut seen = std::collections::HashSet::new();
        for &(s, t, _) in &self.edges {
            let k = if self.directed || s <= t { (s, t) } else { (t, s) };
            if !seen.insert(k) {
                return false;
            }
        }
        true
    }
    pub fn has_loop(&self) -> bool {
        self.edges.iter().any(|e| e.0 == e.1)
    }
    pub fn edges_json(&self) -> Value {
        json!(self.edges.iter().map(|&(s, t, w)| json!([s, t, w])).collect::<Vec<_>>())
    }
    pub fn relabel(&self, perm: &[usize]) -> AG {
        AG { n: self.n, directed: self.directed, edges: self.edges.iter().map(|&(s, t, w)| (perm[s], perm[t], w)).collect() }
    }
}

pub const HISTS: [&str; 3] = ["fresh", "shuffled", "garbage"];

fn orders(ag: &AG, hist: usize, rng: &mut Rng) -> (Vec<usize>, Vec<usize>) {
    let mut no: Vec<usize> = (0..ag.n).collect();
    let mut eo: Vec<usize> = (0..ag.edges.len()).collect();
    if hist >= 1 {
        rng.shuffle(&mut no);
        rng.shuffle(&mut eo);
    }
    (no, eo)
}

macro_rules! build_indexed {
    ($name:ident, $G:ident) => {
        pub fn $name<Ty: EdgeType, E: EW>(ag: &AG, hist: usize, rng: &mut Rng) -> ($G<i32, E, Ty, u32>, Vec<NodeIndex<u32>>) {
            let mut g: $G<i32, E, Ty, u32> = $G::with_capacity(0, 0);
            let (no, eo) = orders(ag, hist, rng);
            let garbage = hist == 2;
            let mut ids: Vec<Option<NodeIndex<u32>>> = vec![None; ag.n];
            let mut junk: Vec<NodeIndex<u32>> = vec![];
            if garbage {
                for _ in 0..1 + rng.below(3) {
                    junk.push(g.add_node(-1));
                }
            }
            for &i in &no {
                ids[i] = Some(g.add_node(i as i32));
                if garbage && rng.chance(1, 3) {
                    junk.push(g.add_node(-1));
                }
            }
            if garbage && rng.chance(1, 2) {
                // a first generation of edges wiped by clear_edges: stale list heads must not leak into what follows
                let all: Vec<NodeIndex<u32>> = g.node_indices().collect();
                for _ in 0..1 + rng.below(4) {
                    let a = all[rng.below(all.len())];
                    let b = all[rng.below(all.len())];
                    g.add_edge(a, b, E::from_i64(GARBAGE_W));
                }
                g.clear_edges();
            }
            for &k in &eo {
                let (s, t, w) = ag.edges[k];
                if garbage && rng.chance(1, 3) {
                    // garbage edge: between a junk node and anything, or between two real nodes
                    let all: Vec<NodeIndex<u32>> = g.node_indices().collect();
                    let a = all[rng.below(all.len())];
                    let b = all[rng.below(all.len())];
                    g.add_edge(a, b, E::from_i64(GARBAGE_W));
                }
                g.add_edge(ids[s].unwrap(), ids[t].unwrap(), E::from_i64(w));
            }
            if garbage {
                // remove garbage edges between real nodes, then the junk nodes (with their edges)
                g.retain_edges(|fz, e| fz[e] != E::from_i64(GARBAGE_W));
                g.retain_nodes(|fz, a| fz[a] != -1);
                // second kind of garbage: a real node is removed and rebuilt with the same incident edges
                if ag.n > 0 && rng.chance(1, 2) {
                    let v = rng.below(ag.n);
                    let old = g.node_indices().find(|&a| g[a] == v as i32).unwrap();
                    g.remove_node(old);
                    g.add_node(v as i32);
                    let find = |g: &$G<i32, E, Ty, u32>, x: usize| g.node_indices().find(|&a| g[a] == x as i32).unwrap();
                    for &(s, t, w) in ag.edges.iter().filter(|e| e.0 == v || e.1 == v) {
                        let (a, b) = (find(&g, s), find(&g, t));
                        g.add_edge(a, b, E::from_i64(w));
                    }
                }
            }
            if garbage && rng.chance(1, 2) {
                // the graph moves into a destination that has its own history (a vacant edge slot), then the free
                // list is used once: an insertion that is taken back again
                let mut d: $G<i32, E, Ty, u32> = $G::with_capacity(0, 0);
                let a = d.add_node(-1);
                let b = d.add_node(-1);
                let e0 = d.add_edge(a, b, E::from_i64(GARBAGE_W));
                d.add_edge(b, a, E::from_i64(GARBAGE_W));
                d.remove_edge(e0);
                d.clone_from(&g);
                g = d;
                let all: Vec<NodeIndex<u32>> = g.node_indices().collect();
                if !all.is_empty() {
                    let x = g.add_edge(all[0], all[all.len() - 1], E::from_i64(GARBAGE_W));
                    g.remove_edge(x);
                }
            }
            // node weights identify the abstract nodes whatever renumbering happened
            let mut fwd = vec![NodeIndex::new(0); ag.n];
            for a in g.node_indices() {
                fwd[g[a] as usize] = a;
            }
            (g, fwd)
        }
    };
}
build_indexed!(build_graph, Graph);
build_indexed!(build_stable, StableGraph);

pub type MIx = petgraph::matrix_graph::NodeIndex<u16>;

pub type Mx<Ty, E> = MatrixGraph<i32, E, std::collections::hash_map::RandomState, Ty>;

pub fn build_matrix<Ty: EdgeType, E: EW>(ag: &AG, hist: usize, rng: &mut Rng) -> (Mx<Ty, E>, Vec<MIx>) {
    let mut g: Mx<Ty, E> = MatrixGraph::with_capacity(if hist == 0 { ag.n } else { 0 });
    let (no, eo) = orders(ag, hist, rng);
    let garbage = hist == 2;
    let mut ids: Vec<Option<MIx>> = vec![None; ag.n];
    let mut junk: Vec<MIx> = vec![];
    if garbage {
        for _ in 0..1 + rng.below(3) {
            junk.push(g.add_node(-1));
        }
    }
    for &i in &no {
        ids[i] = Some(g.add_node(i as i32));
        if garbage && rng.chance(1, 3) {
            junk.push(g.add_node(-1));
        }
    }
    for &k in &eo {
        let (s, t, w) = ag.edges[k];
        if garbage && rng.chance(1, 3) && !junk.is_empty() {
            let a = junk[rng.below(junk.len())];
            let b = ids[no[rng.below(no.len())]].unwrap();
            if !g.has_edge(a, b) {
                g.add_edge(a, b, E::from_i64(GARBAGE_W));
            }
        }
        g.add_edge(ids[s].unwrap(), ids[t].unwrap(), E::from_i64(w));
    }
    for j in junk {
        // junk nodes also carry a self-loop: it must go away with the node (and not reappear on id reuse)
        if !g.has_edge(j, j) {
            g.add_edge(j, j, E::from_i64(GARBAGE_W));
        }
        g.remove_node(j);
    }
    if garbage {
        // reuse a freed id once and free it again
        let x = g.add_node(-1);
        g.remove_node(x);
        // a real node is removed and rebuilt (possibly under another id) with the same incident edges
        if ag.n > 0 && rng.chance(1, 2) {
            let v = rng.below(ag.n);
            g.remove_node(ids[v].unwrap());
            ids[v] = Some(g.add_node(v as i32));
            for &(s, t, w) in ag.edges.iter().filter(|e| e.0 == v || e.1 == v) {
                g.add_edge(ids[s].unwrap(), ids[t].unwrap(), E::from_i64(w));
            }
        }
    }
    (g, ids.into_iter().map(|x| x.unwrap()).collect())
}

pub fn map_key(i: usize) -> i32 {
    ((i as i32) * 7 + 3) % 64 + (i as i32) * 64
}

pub fn build_map<Ty: EdgeType, E: EW>(ag: &AG, hist: usize, rng: &mut Rng) -> (GraphMap<i32, E, Ty>, Vec<i32>) {
    let mut g: GraphMap<i32, E, Ty> = GraphMap::with_capacity(0, 0);
    let (no, eo) = orders(ag, hist, rng);
    let garbage = hist == 2;
    let mut junk = vec![];
    for &i in &no {
        g.add_node(map_key(i));
        if garbage && rng.chance(1, 3) {
            let k = -1 - junk.len() as i32;
            g.add_node(k);
            junk.push(k);
        }
    }
    for &k in &eo {
        let (s, t, w) = ag.edges[k];
        if garbage && rng.chance(1, 3) && !junk.is_empty() {
            g.add_edge(junk[rng.below(junk.len())], map_key(rng.below(ag.n)), E::from_i64(GARBAGE_W));
        }
        g.add_edge(map_key(s), map_key(t), E::from_i64(w));
    }
    for j in junk {
        g.remove_node(j);
    }
    // garbage history, second kind: a real node is removed and then rebuilt with the same key and the same edges
    // (the abstract graph is unchanged; stale entries of the removal would now shadow the re-inserted edges)
    if garbage && ag.n > 0 && rng.chance(1, 2) {
        let v = rng.below(ag.n);
        g.remove_node(map_key(v));
        g.add_node(map_key(v));
        for &(s, t, w) in ag.edges.iter().filter(|e| e.0 == v || e.1 == v) {
            g.add_edge(map_key(s), map_key(t), E::from_i64(w));
        }
    }
    (g, (0..ag.n).map(map_key).collect())
}

/// Csr: nodes 0..n-1 in order (no removal exists); edges in any order. Simple graphs only.
pub fn build_csr<Ty: EdgeType, E: EW>(ag: &AG, hist: usize, rng: &mut Rng) -> (Csr<i32, E, Ty, u32>, Vec<u32>) {
    let mut g: Csr<i32, E, Ty, u32> = Csr::new();
    for i in 0..ag.n {
        g.add_node(i as i32);
    }
    let (_, eo) = orders(ag, hist, rng);
    if hist == 2 && ag.n > 0 {
        // garbage history: other edges first, then clear_edges (the only removal Csr has), then the real edges
        for _ in 0..1 + rng.below(4) {
            let (a, b) = (rng.below(ag.n), rng.below(ag.n));
            g.add_edge(a as u32, b as u32, E::from_i64(GARBAGE_W));
        }
        g.clear_edges();
    }
    for &k in &eo {
        let (s, t, w) = ag.edges[k];
        g.add_edge(s as u32, t as u32, E::from_i64(w));
        if hist >= 1 && rng.chance(1, 3) {
            // a refused duplicate (also in the opposite orientation): nothing may change, cached counts included
            let (a, b) = if rng.chance(1, 2) { (s, t) } else { (t, s) };
            if ag.directed { g.add_edge(s as u32, t as u32, E::from_i64(GARBAGE_W)); } else { g.add_edge(a as u32, b as u32, E::from_i64(GARBAGE_W)); }
        }
    }
    (g, (0..ag.n as u32).collect())
}

/// adj::List: directed only, nodes 0..n-1 in order, parallel edges allowed.
pub fn build_list<E: EW>(ag: &AG, hist: usize, rng: &mut Rng) -> (List<E, u32>, Vec<u32>) {
    let mut g: List<E, u32> = List::with_capacity(0);
    for _ in 0..ag.n {
        g.add_node();
    }
    let (_, eo) = orders(ag, hist, rng);
    for &k in &eo {
        let (s, t, w) = ag.edges[k];
        g.add_edge(s as u32, t as u32, E::from_i64(w));
    }
    (g, (0..ag.n as u32).collect())
}

/// inverse of fwd
pub fn inv_of<T: Copy + Eq + std::hash::Hash>(fwd: &[T]) -> std::collections::HashMap<T, usize> {
    fwd.iter().enumerate().map(|(i, &x)| (x, i)).collect()
}

// ------------------------------------------------------------------------------------------
// abstract graph generation

/// All graphs on n nodes whose edge multiset is a sub-multiset of the candidate pairs with
/// multiplicity <= mult: enumerated by index (for exhaustive sweeps).
pub fn candidate_pairs(n: usize, directed: bool, loops: bool) -> Vec<(usize, usize)> {
    let mut v = vec![];
    for s in 0..n {
        for t in 0..n {
            if s == t && !loops {
                continue;
            }
            if !directed && s > t {
                continue;
            }
            v.push((s, t));
        }
    }
    v
}

pub fn graph_by_code(n: usize, directed: bool, loops: bool, mult: usize, mut code: u64, wsrc: &mut dyn FnMut() -> i64) -> AG {
    let pairs = candidate_pairs(n, directed, loops);
    let mut edges = vec![];
    for &(s, t) in &pairs {
        let m = (code % (mult as u64 + 1)) as usize;
        code /= mult as u64 + 1;
        for _ in 0..m {
            edges.push((s, t, wsrc()));
        }
    }
    AG { n, directed, edges }
}

pub fn code_space(n: usize, directed: bool, loops: bool, mult: usize) -> u64 {
    (mult as u64 + 1).pow(candidate_pairs(n, directed, loops).len() as u32)
}

/// Random shapes: sparse, dense, dag, forest, bipartite, two blobs and a bridge, multigraph.
pub fn random_ag(rng: &mut Rng, nmax: usize, directed: bool, wlo: i64, whi: i64, multi: bool, loops: bool) -> AG {
    let n = 1 + rng.below(nmax);
    let shape = rng.below(8);
    let mut edges: Vec<(usize, usize, i64)> = vec![];
    let w = |rng: &mut Rng| rng.range(wlo, whi);
    match shape {
        0 => {
            // sparse
            for _ in 0..rng.below(n + 1) {
                edges.push((rng.below(n), rng.below(n), w(rng)));
            }
        }
        1 => {
            // dense
            for s in 0..n {
                for t in 0..n {
                    if rng.chance(3, 5) {
                        edges.push((s, t, w(rng)));
                    }
                }
            }
        }
        2 => {
            // dag (edges low -> high under a random relabelling)
            let mut p: Vec<usize> = (0..n).collect();
            rng.shuffle(&mut p);
            for s in 0..n {
                for t in s + 1..n {
                    if rng.chance(2, 5) {
                        edges.push((p[s], p[t], w(rng)));
                    }
                }
            }
        }
        3 => {
            // forest
            let mut p: Vec<usize> = (0..n).collect();
            rng.shuffle(&mut p);
            for i in 1..n {
                if rng.chance(4, 5) {
                    let j = rng.below(i);
                    if rng.chance(1, 2) { edges.push((p[i], p[j], w(rng))) } else { edges.push((p[j], p[i], w(rng))) }
                }
            }
        }
        4 => {
            // bipartite
            let cut = 1 + rng.below(n);
            for s in 0..cut {
                for t in cut..n {
                    if rng.chance(1, 2) {
                        if rng.chance(1, 2) { edges.push((s, t, w(rng))) } else { edges.push((t, s, w(rng))) }
                    }
                }
            }
        }
        5 => {
            // two blobs and a bridge
            let cut = n / 2;
            for s in 0..n {
                for t in 0..n {
                    if (s < cut) == (t < cut) && s != t && rng.chance(1, 2) {
                        edges.push((s, t, w(rng)));
                    }
                }
            }
            if cut > 0 && cut < n {
                edges.push((rng.below(cut), cut + rng.below(n - cut), w(rng)));
            }
        }
        6 => {
            // cycle(s) with chords
            for i in 0..n {
                if rng.chance(5, 6) {
                    edges.push((i, (i + 1) % n, w(rng)));
                }
            }
            for _ in 0..rng.below(3) {
                edges.push((rng.below(n), rng.below(n), w(rng)));
            }
        }
        _ => {
            // medium random
            for _ in 0..rng.below(2 * n + 1) {
                edges.push((rng.below(n), rng.below(n), w(rng)));
            }
        }
    }
    if !loops {
        edges.retain(|e| e.0 != e.1);
    }
    let mut ag = AG { n, directed, edges };
    if !multi {
        // drop parallel edges
        let mut seen = std::collections::HashSet::new();
        let d = ag.directed;
        ag.edges.retain(|&(s, t, _)| seen.insert(if d || s <= t { (s, t) } else { (t, s) }));
    } else if rng.chance(1, 3) && !ag.edges.is_empty() {
        // force a parallel edge
        let e = ag.edges[rng.below(ag.edges.len())];
        ag.edges.push((e.0, e.1, w(rng)));
    }
    if ag.edges.len() > 24 {
        ag.edges.truncate(24);
    }
    ag
}

/// Edge orders that build maximally deep union-find trees (class representatives united in
/// binomial order, higher index first): stresses every algorithm that runs UnionFind over the
/// edge list (connected_components, is_cyclic_undirected, Kruskal).
pub fn binomial_ag(rng: &mut Rng, r: u32, directed: bool, extra: usize) -> AG {
    let n = 1usize << r;
    let mut name: Vec<usize> = (0..n).collect();
    if rng.chance(1, 2) {
        rng.shuffle(&mut name);
    }
    let mut edges = vec![];
    let mut step = 1;
    while step < n {
        let mut i = step - 1;
        while i + step < n {
            // representatives of the two blocks under union-by-rank with ties to the first argument
            let (a, b) = (i + step, i);
            let (a, b) = if rng.chance(3, 4) { (a, b) } else { (b, a) };
            edges.push((name[a], name[b], 1 + rng.below(4) as i64));
            i += 2 * step;
        }
        step *= 2;
    }
    for _ in 0..extra {
        edges.push((rng.below(n), rng.below(n), 1 + rng.below(4) as i64));
    }
    AG { n, directed, edges }
}

/// Flow networks that need flow cancellation: s, two layers, t, with cross edges; random edge order.
pub fn layered_flow_ag(rng: &mut Rng) -> AG {
    let (l1, l2) = (2 + rng.below(2), 2 + rng.below(2));
    let n = 2 + l1 + l2;
    let (s, t) = (0, n - 1);
    let mut edges = vec![];
    let cap = |rng: &mut Rng| 1 + rng.below(3) as i64;
    for i in 0..l1 { if rng.chance(5, 6) { edges.push((s, 1 + i, cap(rng))); } }
    for j in 0..l2 { if rng.chance(5, 6) { edges.push((1 + l1 + j, t, cap(rng))); } }
    for i in 0..l1 { for j in 0..l2 { if rng.chance(3, 5) { edges.push((1 + i, 1 + l1 + j, cap(rng))); } } }
    if rng.chance(1, 3) { edges.push((1 + rng.below(l1), 1 + rng.below(l1), cap(rng))); }            // within layer / self-loop
    if rng.chance(1, 3) { edges.push((1 + l1 + rng.below(l2), 1 + rng.below(l1), cap(rng))); }       // backward
    rng.shuffle(&mut edges);
    edges.truncate(13);
    // random renaming keeps s and t arbitrary for the (s, t) pairs the driver picks
    AG { n, directed: true, edges }
}

/// Sparse undirected graphs rich in odd cycles with pendant paths (blossoms), 6..9 nodes.
pub fn blossom_ag(rng: &mut Rng) -> AG {
    let n = 6 + rng.below(4);
    let mut p: Vec<usize> = (0..n).collect();
    rng.shuffle(&mut p);
    let mut edges = vec![];
    let c = 3 + 2 * rng.below(2); // odd cycle of length 3 or 5
    for i in 0..c { edges.push((p[i], p[(i + 1) % c], 1)); }
    // pendant paths / extra edges
    for i in c..n {
        let a = p[rng.below(i)];
        edges.push((a, p[i], 1));
    }
    for _ in 0..rng.below(3) { edges.push((rng.below(n), rng.below(n), 1)); }
    rng.shuffle(&mut edges);
    for e in edges.iter_mut() { if rng.chance(1, 2) { *e = (e.1, e.0, e.2); } }
    edges.truncate(12);
    AG { n, directed: false, edges }
}

/// larger blossom-rich graphs (several odd cycles sharing vertices, pendant paths): 10..16 nodes, up to ~22 edges.
/// Too big for the enumeration oracle; judged through a Tutte-Berge certificate.
pub fn blossom_big_ag(rng: &mut Rng) -> AG {
    let n = 10 + rng.below(7);
    let mut p: Vec<usize> = (0..n).collect();
    rng.shuffle(&mut p);
    let mut edges: Vec<(usize, usize, i64)> = vec![];
    let mut used = 0;
    while used + 3 <= n.min(12) {
        let c = 3 + 2 * rng.below(2);
        let c = c.min(n - used);
        if c < 3 { break; }
        for i in 0..c { edges.push((p[used + i], p[used + (i + 1) % c], 1)); }
        // hang the cycle on what exists already
        if used > 0 { edges.push((p[rng.below(used)], p[used + rng.below(c)], 1)); }
        used += c;
    }
    for i in used..n { edges.push((p[rng.below(i.max(1))], p[i], 1)); }
    for _ in 0..rng.below(4) {
        let (a, b) = (rng.below(n), rng.below(n));
        if a != b { edges.push((a, b, 1)); }
    }
    // simple: drop duplicates (either orientation)
    let mut seen = std::collections::HashSet::new();
    edges.retain(|&(a, b, _)| seen.insert((a.min(b), a.max(b))));
    rng.shuffle(&mut edges);
    for e in edges.iter_mut() { if rng.chance(1, 2) { *e = (e.1, e.0, e.2); } }
    AG { n, directed: false, edges }
}

/// A set U maximising odd(G - U) - |U| (Tutte-Berge): nu(G) = (n + |U| - odd(G - U)) / 2.  Brute force over all U.
pub fn tutte_berge_witness(ag: &AG) -> Vec<usize> {
    let n = ag.n;
    assert!(n <= 20);
    let mut adj = vec![0u32; n];
    for &(a, b, _) in &ag.edges { if a != b { adj[a] |= 1 << b; adj[b] |= 1 << a; } }
    let (mut best, mut best_u) = (i64::MIN, 0u32);
    for u in 0..(1u32 << n) {
        let mut left = !u & ((1u32 << n) - 1);
        let mut odd = 0i64;
        while left != 0 {
            let s = left.trailing_zeros();
            let (mut comp, mut frontier) = (1u32 << s, 1u32 << s);
            while frontier != 0 {
                let v = frontier.trailing_zeros() as usize;
                frontier &= frontier - 1;
                let nb = adj[v] & left & !comp;
                comp |= nb;
                frontier |= nb;
            }
            left &= !comp;
            if comp.count_ones() % 2 == 1 { odd += 1; }
        }
        let d = odd - u.count_ones() as i64;
        if d > best { best = d; best_u = u; }
    }
    (0..n).filter(|i| best_u & (1 << i) != 0).collect()
}

/// Flow graphs for dominators: everything reachable from node 0, several merging paths and
/// cycles entered at more than one node (irreducible regions), n = 5..7.
pub fn flowgraph_ag(rng: &mut Rng) -> AG {
    let n = 5 + rng.below(3);
    let mut edges: Vec<(usize, usize, i64)> = vec![];
    // a random spanning arborescence from 0 keeps every node reachable
    let mut order: Vec<usize> = (1..n).collect();
    rng.shuffle(&mut order);
    let mut seen = vec![0usize];
    for &v in &order {
        let p = seen[rng.below(seen.len())];
        edges.push((p, v, 1));
        seen.push(v);
    }
    // extra edges: forward, cross and back
    for _ in 0..(2 + rng.below(4)) {
        let (a, b) = (rng.below(n), 1 + rng.below(n - 1));
        if a != b { edges.push((a, b, 1)); }
    }
    let mut set = std::collections::HashSet::new();
    edges.retain(|&(s, t, _)| set.insert((s, t)));
    rng.shuffle(&mut edges);
    AG { n, directed: true, edges }
}

/// Undirected cactus-like graphs: cycles glued at cut vertices, pendant edges, occasional self-loop
/// or parallel edge; random edge order and orientation (articulation points).
pub fn cactus_ag(rng: &mut Rng) -> AG {
    let mut edges: Vec<(usize, usize, i64)> = vec![];
    let mut n = 1;
    let blocks = 2 + rng.below(3);
    for _ in 0..blocks {
        let attach = rng.below(n);
        let len = 1 + rng.below(3); // new nodes in this block
        let first = n;
        n += len;
        if len == 1 {
            edges.push((attach, first, 1)); // pendant edge
        } else {
            // a cycle attach - first - ... - last - attach
            edges.push((attach, first, 1));
            for v in first..first + len - 1 { edges.push((v, v + 1, 1)); }
            edges.push((first + len - 1, attach, 1));
        }
    }
    if rng.chance(1, 4) { let v = rng.below(n); edges.push((v, v, 1)); }
    if rng.chance(1, 4) { let e = edges[rng.below(edges.len())]; edges.push(e); }
    let mut p: Vec<usize> = (0..n).collect();
    rng.shuffle(&mut p);
    let mut edges: Vec<(usize, usize, i64)> = edges.into_iter().map(|(a, b, w)| if rng.chance(1, 2) { (p[a], p[b], w) } else { (p[b], p[a], w) }).collect();
    rng.shuffle(&mut edges);
    AG { n, directed: false, edges }
}

/// Irreducible flow graphs: a strongly connected region entered from the root at two or three
/// different nodes through paths of different length (dominator fixpoints need several passes).
pub fn irreducible_ag(rng: &mut Rng) -> AG {
    let r = 3 + rng.below(2);                 // region size
    let entries = 2 + rng.below(2).min(r - 2);
    let mut edges: Vec<(usize, usize, i64)> = vec![];
    let mut n = 1;                             // node 0 = root
    let region: Vec<usize> = (n..n + r).collect();
    n += r;
    // region: a cycle plus random chords in both directions
    let mut ord = region.clone();
    rng.shuffle(&mut ord);
    for i in 0..r { edges.push((ord[i], ord[(i + 1) % r], 1)); }
    for _ in 0..rng.below(3) { let (a, b) = (ord[rng.below(r)], ord[rng.below(r)]); if a != b { edges.push((a, b, 1)); } }
    // entry paths of length 1 or 2 into distinct region nodes
    let mut targets = region.clone();
    rng.shuffle(&mut targets);
    for k in 0..entries {
        if rng.chance(1, 2) || n >= 8 {
            edges.push((0, targets[k], 1));
        } else {
            edges.push((0, n, 1));
            edges.push((n, targets[k], 1));
            n += 1;
        }
    }
    // sometimes an exit node
    if rng.chance(1, 2) && n < 8 { edges.push((ord[rng.below(r)], n, 1)); n += 1; }
    let mut set = std::collections::HashSet::new();
    edges.retain(|&(s, t, _)| set.insert((s, t)));
    rng.shuffle(&mut edges);
    // rename everything except the root so that index order and structure are unrelated
    let mut p: Vec<usize> = (1..n).collect();
    rng.shuffle(&mut p);
    let name = |x: usize| if x == 0 { 0 } else { p[x - 1] };
    AG { n, directed: true, edges: edges.into_iter().map(|(a, b, w)| (name(a), name(b), w)).collect() }
}
