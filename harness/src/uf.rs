//! C19: UnionFind driver. Script events {op, x, y, ..} are executed on the real
//! `petgraph::unionfind::UnionFind<K>`; each produces one trace event with the
//! result (`ret`), the length (`len`) and, after a merging union, the
//! representative chosen (`rep`), which resolves the spec's nondeterminism.
use crate::common::*;
use petgraph::graph::IndexType;
use petgraph::unionfind::UnionFind;
use serde_json::{json, Value};

fn k<K: IndexType>(v: &Value, f: &str) -> K {
    K::new(v[f].as_u64().unwrap() as usize)
}

pub fn run_segment<K: IndexType>(ops: &[Value], log: &mut Log) {
    let mut uf: UnionFind<K> = UnionFind::new_empty();
    for op0 in ops {
        // "union_reps": unite the current representatives of x and y (found read-only), which
        // builds maximally deep trees (no path halving on the way). Logged as a plain union.
        let mut opv = op0.clone();
        if op0["op"] == "union_reps" {
            // (a panic in the code under test is data, never a harness failure: fall back to the plain arguments)
            let rx = guard(|| uf.try_find(k::<K>(op0, "x")).map(|r| r.index())).unwrap_or(None);
            let ry = guard(|| uf.try_find(k::<K>(op0, "y")).map(|r| r.index())).unwrap_or(None);
            if let (Some(rx), Some(ry)) = (rx, ry) {
                opv = json!({"op": if op0["try"] == true {"try_union"} else {"union"}, "x": rx, "y": ry});
            } else {
                opv = json!({"op":"try_union","x":op0["x"],"y":op0["y"]});
            }
        }
        let op = &opv;
        let name = op["op"].as_str().unwrap();
        let mut ev = op.clone();
        let ret: Value = match name {
            "reset" => {
                let n = op["n"].as_u64().unwrap() as usize;
                uf = match op["ctor"].as_str().unwrap_or("new") {
                    "new" => UnionFind::new(n),
                    "with_capacity" => {
                        let mut u = UnionFind::with_capacity(n + 3);
                        for _ in 0..n {
                            u.new_set();
                        }
                        u
                    }
                    "default" => {
                        let mut u = UnionFind::default();
                        for _ in 0..n {
                            u.new_set();
                        }
                        u
                    }
                    _ => {
                        let mut u = UnionFind::new_empty();
                        for _ in 0..n {
                            u.new_set();
                        }
                        u
                    }
                };
                rs("ok")
            }
            "new_set" => or_panic(guard(|| ri(uf.new_set().index()))),
            "find" => or_panic(guard(|| ri(uf.find(k::<K>(op, "x")).index()))),
            "try_find" => or_panic(guard(|| opt_i(uf.try_find(k::<K>(op, "x")).map(|r| r.index())))),
            "find_mut" => or_panic(guard(|| ri(uf.find_mut(k::<K>(op, "x")).index()))),
            "try_find_mut" => or_panic(guard(|| opt_i(uf.try_find_mut(k::<K>(op, "x")).map(|r| r.index())))),
            "equiv" => or_panic(guard(|| rb(uf.equiv(k::<K>(op, "x"), k::<K>(op, "y"))))),
            "try_equiv" => or_panic(guard(|| res_bi(uf.try_equiv(k::<K>(op, "x"), k::<K>(op, "y")).map_err(|e| e.index())))),
            "union" => or_panic(guard(|| rb(uf.union(k::<K>(op, "x"), k::<K>(op, "y"))))),
            "try_union" => {
                or_panic(guard(|| res_bi(uf.try_union(k::<K>(op, "x"), k::<K>(op, "y")).map_err(|e| e.index()))))
            }
            "labeling" => {
                let c = uf.clone();
                or_panic(guard(|| rli(c.into_labeling().iter().map(|r| r.index()).collect::<Vec<_>>())))
            }
            "clone" => {
                uf = uf.clone();
                rs("ok")
            }
            "clone_from" => {
                // into a destination with its own (smaller or larger) history
                let m = op["x"].as_u64().unwrap_or(0) as usize;
                let r = guard(|| {
                    let mut d: UnionFind<K> = UnionFind::new(m.min(<K as IndexType>::max().index()));
                    if m >= 2 { d.union(K::new(0), K::new(1)); }
                    d.clone_from(&uf);
                    d
                });
                match r { Ok(d) => { uf = d; rs("ok") } Err(()) => rpanic() }
            }
            "len" => ri(uf.len()),
            "is_empty" => rb(uf.is_empty()),
            "capacity" => {
                // capacity operations: no observable effect on the partition
                let a = op["x"].as_u64().unwrap() as usize;
                match op["which"].as_str().unwrap() {
                    "reserve" => uf.reserve(a),
                    "reserve_exact" => uf.reserve_exact(a),
                    "try_reserve" => uf.try_reserve(a).unwrap(),
                    "try_reserve_exact" => uf.try_reserve_exact(a).unwrap(),
                    "shrink_to_fit" => uf.shrink_to_fit(),
                    "shrink_to" => uf.shrink_to(a),
                    _ => panic!("bad capacity op"),
                }
                rb(uf.capacity() >= uf.len())
            }
            _ => panic!("unknown uf op {}", name),
        };
        ev["ret"] = ret;
        ev["len"] = json!(uf.len());
        // cheap scalar state after a union: the representative now shared by x (and y)
        if name == "union" || name == "try_union" {
            let x = op["x"].as_u64().unwrap() as usize;
            ev["rep"] = or_panic(guard(|| opt_i(uf.try_find(K::new(x)).map(|r| r.index()))));
        }
        log.ev(ev);
    }
}

pub fn exec_script(script: &[Value], log: &mut Log) {
    // split at resets; the index type is a field of the reset event
    let mut i = 0;
    while i < script.len() {
        assert_eq!(script[i]["op"], "reset", "segment must start with reset");
        let mut j = i + 1;
        while j < script.len() && script[j]["op"] != "reset" {
            j += 1;
        }
        let seg = &script[i..j];
        match script[i]["ix"].as_str().unwrap() {
            "u8" => run_segment::<u8>(seg, log),
            "u16" => run_segment::<u16>(seg, log),
            "u32" => run_segment::<u32>(seg, log),
            "usize" => run_segment::<usize>(seg, log),
            o => panic!("bad ix {}", o),
        }
        i = j;
    }
}

const CAP_OPS: [&str; 6] = ["reserve", "reserve_exact", "try_reserve", "try_reserve_exact", "shrink_to_fit", "shrink_to"];
const CTORS: [&str; 4] = ["new", "with_capacity", "default", "new_empty"];

fn ix_max(ix: &str) -> usize {
    match ix {
        "u8" => 255,
        "u16" => 65535,
        _ => 1 << 20,
    }
}

/// One random segment: `len` calls on a set of initially `n` elements.
/// Arguments are mostly in range, sometimes just past the end, sometimes far out.
pub fn gen_segment(rng: &mut Rng, ix: &str, n: usize, len: usize, grow: bool) -> Vec<Value> {
    let mut s = vec![json!({"op":"reset","ix":ix,"n":n,"ctor":*rng.pick(&CTORS)})];
    let mut cur = n;
    let limit = ix_max(ix) + 1; // number of elements the index type can name
    let arg = |rng: &mut Rng, cur: usize| -> usize {
        let r = rng.below(100);
        let v = if r < 88 && cur > 0 {
            // bias towards a small window so classes actually merge
            if rng.chance(1, 2) { rng.below(cur) } else { rng.below(cur.min(12)) }
        } else if r < 95 {
            cur + rng.below(3)
        } else {
            rng.below(ix_max(ix) + 1)
        };
        v.min(ix_max(ix))
    };
    for _ in 0..len {
        let r = rng.below(100);
        let x = arg(rng, cur);
        let y = arg(rng, cur);
        let e = match r {
            0..=16 => json!({"op":"union","x":x,"y":y}),
            17 => json!({"op":"clone_from","x":if x % 2 == 0 { x / 2 } else { n + 3 }}),
            18..=35 => json!({"op":"try_union","x":x,"y":y}),
            36..=43 => json!({"op":"find","x":x}),
            44..=51 => json!({"op":"try_find","x":x}),
            52..=59 => json!({"op":"find_mut","x":x}),
            60..=67 => json!({"op":"try_find_mut","x":x}),
            68..=73 => json!({"op":"equiv","x":x,"y":y}),
            74..=81 => json!({"op":"try_equiv","x":x,"y":y}),
            82..=83 => json!({"op":"labeling"}),
            84..=85 => json!({"op":"union_reps","x":x,"y":y,"try":rng.chance(1,2)}),
            86..=87 => json!({"op":"len"}),
            88 => json!({"op":"is_empty"}),
            89 => json!({"op":"clone"}),
            90..=92 => json!({"op":"capacity","which":*rng.pick(&CAP_OPS),"x":rng.below(40)}),
            _ => {
                if grow && cur < limit {
                    cur += 1;
                    json!({"op":"new_set"})
                } else {
                    json!({"op":"try_find","x":x})
                }
            }
        };
        s.push(e);
    }
    s
}

/// Deep trees: unite class representatives in binomial order under a random renaming, then
/// observe with labeling / find / find_mut on every element (interleaved differently per segment).
pub fn gen_deep(rng: &mut Rng, ix: &str, r: u32) -> Vec<Value> {
    let n = 1usize << r;
    let mut s = vec![json!({"op":"reset","ix":ix,"n":n,"ctor":*rng.pick(&CTORS)})];
    let mut name: Vec<usize> = (0..n).collect();
    rng.shuffle(&mut name);
    let mut step = 1;
    while step < n {
        let mut i = 0;
        while i + step < n {
            let (a, b) = if rng.chance(1, 2) { (i, i + step) } else { (i + step, i) };
            s.push(json!({"op":"union_reps","x":name[a],"y":name[b],"try":rng.chance(1,2)}));
            i += 2 * step;
        }
        step *= 2;
        if rng.chance(1, 4) {
            s.push(json!({"op":"labeling"}));
        }
    }
    s.push(json!({"op":"labeling"}));
    let mut order: Vec<usize> = (0..n).collect();
    rng.shuffle(&mut order);
    for (j, &x) in order.iter().enumerate() {
        let op = ["find", "try_find", "find_mut", "try_find_mut"][rng.below(4)];
        s.push(json!({"op":op,"x":x}));
        if j % 7 == 3 {
            s.push(json!({"op":"equiv","x":x,"y":order[rng.below(n)]}));
        }
        if j % 11 == 5 {
            s.push(json!({"op":"labeling"}));
        }
    }
    s.push(json!({"op":"labeling"}));
    s
}

/// One representative absorbing several hundred singleton sets (a star), in both argument orders: more unions into
/// one class than a u8 rank could count if ranks grew with the class instead of with the tree height.
pub fn gen_star(rng: &mut Rng, ix: &str, n: usize) -> Vec<Value> {
    let mut s = vec![json!({"op":"reset","ix":ix,"n":n,"ctor":*rng.pick(&CTORS)})];
    for i in 1..n {
        // the absorbing representative is the FIRST argument (the tie / greater-rank side of union by rank)
        let (x, y) = if i < n - 20 || i % 2 == 0 { (0, i) } else { (i, 0) };
        s.push(json!({"op": if i % 3 == 0 { "try_union" } else { "union" },"x":x,"y":y}));
    }
    s.push(json!({"op":"labeling"}));
    for _ in 0..6 {
        s.push(json!({"op":"equiv","x":rng.below(n),"y":rng.below(n)}));
    }
    s
}

/// Random histories at every index width, including u8 grown to its 256-element capacity.
pub fn gen_random(seed: u64, segments: usize, len: usize) -> Vec<Value> {
    let mut rng = Rng::new(seed);
    let mut out = vec![];
    for i in 0..segments {
        let ix = ["u8", "u16", "u32", "usize"][i % 4];
        let n = match i % 5 {
            0 => rng.below(4),
            1 => 2 + rng.below(8),
            2 => 8 + rng.below(24),
            3 => 30 + rng.below(60),
            _ => 1 + rng.below(16),
        };
        out.extend(gen_segment(&mut rng, ix, n, len, true));
    }
    for i in 0..(segments / 4).max(2) {
        let ix = ["u8", "u16", "u32", "usize"][i % 4];
        out.extend(gen_deep(&mut rng, ix, 2 + (i % 5) as u32));
    }
    out.extend(gen_star(&mut rng, "u16", 300));
    // u8 at its capacity: start at 250, grow to 256, keep operating
    for _ in 0..(segments / 8).max(1) {
        let mut seg = gen_segment(&mut rng, "u8", 250, 6, false);
        for _ in 0..6 {
            seg.push(json!({"op":"new_set"}));
        }
        let tail = gen_segment(&mut rng, "u8", 256, len, false);
        seg.extend(tail.into_iter().skip(1));
        out.extend(seg);
    }
    out
}

/// All scripts of `depth` calls over a small alphabet on `n` elements (args 0..=n, i.e. one out of range).
pub fn gen_exhaustive(n: usize, depth: usize, ix: &str) -> Vec<Value> {
    let mut alphabet: Vec<Value> = vec![];
    for x in 0..=n {
        for y in 0..=n {
            alphabet.push(json!({"op":"try_union","x":x,"y":y}));
        }
        alphabet.push(json!({"op":"find_mut","x":x}));
    }
    alphabet.push(json!({"op":"new_set"}));
    let mut out = vec![];
    let a = alphabet.len();
    let total = a.pow(depth as u32);
    for code in 0..total {
        let mut c = code;
        out.push(json!({"op":"reset","ix":ix,"n":n,"ctor":"new"}));
        for _ in 0..depth {
            out.push(alphabet[c % a].clone());
            c /= a;
        }
        // observe everything at the end
        out.push(json!({"op":"labeling"}));
        for x in 0..=n {
            out.push(json!({"op":"try_find","x":x}));
        }
        out.push(json!({"op":"union","x":0,"y":n})); // panicking variant, out of range unless new_set grew it
        out.push(json!({"op":"equiv","x":0,"y":n.saturating_sub(1)}));
    }
    out
}
