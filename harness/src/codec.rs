//! C18: graph6 (encode on five graph types in node-iteration order, decode into five types) and Dot output
//! with adversarial weight strings.  Strings are recorded as lists of character codes; the TLA+ side has an
//! independent graph6 encoder and a DOT tokenizer / statement parser.
use crate::algos::*;
use crate::common::*;
use crate::enc::*;
use petgraph::csr::Csr;
use petgraph::dot::{Config, Dot};
use petgraph::graph6::{FromGraph6, ToGraph6};
use petgraph::graphmap::GraphMap;
use petgraph::matrix_graph::MatrixGraph;
use petgraph::stable_graph::StableGraph;
use petgraph::visit::*;
use petgraph::{Directed, EdgeType, Graph, Undirected};
use serde_json::{json, Value};

fn codes(s: &str) -> Vec<u32> {
    s.chars().map(|c| c as u32).collect()
}

/// harness-side graph6 encoder (checked against the TLA+ definition by the oracle before it is used as
/// decoder input)
fn g6_encode(n: usize, adj: &dyn Fn(usize, usize) -> bool) -> String {
    let mut out: Vec<u8> = vec![];
    if n <= 62 {
        out.push(n as u8 + 63);
    } else {
        out.push(126);
        out.push(((n >> 12) & 63) as u8 + 63);
        out.push(((n >> 6) & 63) as u8 + 63);
        out.push((n & 63) as u8 + 63);
    }
    let mut bits = vec![];
    for j in 1..n {
        for i in 0..j {
            bits.push(adj(i, j));
        }
    }
    while bits.len() % 6 != 0 {
        bits.push(false);
    }
    for ch in bits.chunks(6) {
        let mut v = 0u8;
        for &b in ch {
            v = (v << 1) | b as u8;
        }
        out.push(v + 63);
    }
    String::from_utf8(out).unwrap()
}

fn dec_json<G>(g: &G) -> Value
where
    for<'a> &'a G: IntoNodeIdentifiers + IntoEdgeReferences + NodeIndexable,
{
    let mut nodes: Vec<usize> = g.node_identifiers().map(|x| NodeIndexable::to_index(&g, x)).collect();
    nodes.sort();
    let edges: Vec<Value> = g.edge_references().map(|e| json!([NodeIndexable::to_index(&g, e.source()), NodeIndexable::to_index(&g, e.target())])).collect();
    json!({"nodes": nodes, "edges": edges})
}

pub fn g6_case(out: &mut Out, ag: &AG, rng: &mut Rng) {
    out.log.about_to(&json!({"prop": "C18", "kind": "g6", "n": ag.n, "dir": false, "E": ag.edges_json()}));
    assert!(!ag.directed && ag.is_simple() && !ag.has_loop());
    let n = ag.n;
    let has = |i: usize, j: usize| ag.edges.iter().any(|e| (e.0 == i && e.1 == j) || (e.0 == j && e.1 == i));
    let hs = g6_encode(n, &has);
    // decode the harness string into every type
    let dec = run(|| {
        let mapj = {
            let g = GraphMap::<u32, (), Undirected>::from_graph6_string(hs.clone());
            let mut nodes: Vec<u32> = g.nodes().collect();
            nodes.sort();
            let edges: Vec<Value> = g.all_edges().map(|(a, b, _)| json!([a, b])).collect();
            json!({"nodes": nodes, "edges": edges})
        };
        let gj = dec_json(&Graph::<(), (), Undirected, u32>::from_graph6_string(hs.clone()));
        let sj = dec_json(&StableGraph::<(), (), Undirected, u32>::from_graph6_string(hs.clone()));
        let mj = dec_json(&MatrixGraph::<(), (), std::collections::hash_map::RandomState, Undirected>::from_graph6_string(hs.clone()));
        let cj = dec_json(&Csr::<(), (), Undirected, u32>::from_graph6_string(hs.clone()));
        json!({"graph": gj, "stable": sj, "map": mapj, "matrix": mj, "csr": cj})
    });
    for h in 0..3 {
        macro_rules! enc { ($build:expr, $name:expr) => {{
            let (g, fwd) = $build;
            let inv = inv_of(&fwd);
            let mut f = Fields::new();
            f.insert("kind".into(), json!("g6"));
            f.insert("ord".into(), okv(json!((&g).node_identifiers().map(|x| inv[&x]).collect::<Vec<_>>())));
            f.insert("g6".into(), run(|| json!(codes(&g.graph6_string()))));
            if h == 0 && $name == "graph" {
                f.insert("hs".into(), okv(json!(codes(&hs))));
                f.insert("dec".into(), dec.clone());
            }
            out.rec("C18", $name, HISTS[h], ag, f);
        }}}
        enc!(build_graph::<Undirected, i64>(ag, h, rng), "graph");
        enc!(build_stable::<Undirected, i64>(ag, h, rng), "stable");
        enc!(build_map::<Undirected, i64>(ag, h, rng), "map");
        enc!(build_matrix::<Undirected, i64>(ag, h, rng), "matrix");
        enc!(build_csr::<Undirected, i64>(ag, h, rng), "csr");
    }
}

fn simple_und(rng: &mut Rng, n: usize, dens: u32) -> AG {
    let mut edges = vec![];
    for i in 0..n {
        for j in i + 1..n {
            if rng.chance(dens, 10) {
                edges.push((i, j, 1));
            }
        }
    }
    AG { n, directed: false, edges }
}

// ---------------------------------------------------------------------------------------------- Dot
const ALPHABET: [&str; 14] = ["\"", "\\", "\n", "\r", "]", "[", ";", "{", "}", "-", ">", "a", " ", "l"];

fn adversarial(rng: &mut Rng) -> String {
    let len = rng.below(5);
    let mut s = String::new();
    for _ in 0..len {
        s.push_str(ALPHABET[rng.below(ALPHABET.len())]);
    }
    if rng.chance(1, 8) {
        s.push_str("\" ]\n    9 -> 9 [ label = \"x"); // an injection attempt
    }
    s
}

/// A weight whose Display hands its text to the formatter one `char` at a time (`Formatter::write_char`), the way
/// `char`, and user types that print piecewise, do: Dot's escaping must not depend on how the weight writes itself.
#[derive(Clone)]
struct Chars(String);
impl std::fmt::Display for Chars {
    fn fmt(&self, f: &mut std::fmt::Formatter<'_>) -> std::fmt::Result {
        use std::fmt::Write;
        for c in self.0.chars() { f.write_char(c)?; }
        Ok(())
    }
}
impl std::fmt::Debug for Chars {
    fn fmt(&self, f: &mut std::fmt::Formatter<'_>) -> std::fmt::Result {
        use std::fmt::Write;
        f.write_char('"')?;
        for c in self.0.chars() { for e in c.escape_debug() { f.write_char(e)?; } }
        f.write_char('"')
    }
}

fn dot_record<G, W>(out: &mut Out, g: G, enc: &str, ag: &AG, rng: &mut Rng)
where
    W: std::fmt::Display + std::fmt::Debug,
    G: IntoNodeReferences + IntoEdgeReferences + NodeIndexable + GraphProp + Copy + Data<NodeWeight = W, EdgeWeight = W>,
{
    let all = [Config::NodeIndexLabel, Config::EdgeIndexLabel, Config::EdgeNoLabel, Config::NodeNoLabel, Config::GraphContentOnly];
    let names = ["NodeIndexLabel", "EdgeIndexLabel", "EdgeNoLabel", "NodeNoLabel", "GraphContentOnly"];
    for mask in 0..32u32 {
        if mask > 7 && rng.chance(1, 2) {
            continue; // all subsets of the first three always, the rest sampled
        }
        let mut cfg = vec![];
        let mut cfgn = vec![];
        for (i, _) in all.iter().enumerate() {
            if mask & (1 << i) != 0 {
                cfg.push(match i { 0 => Config::NodeIndexLabel, 1 => Config::EdgeIndexLabel, 2 => Config::EdgeNoLabel, 3 => Config::NodeNoLabel, _ => Config::GraphContentOnly });
                cfgn.push(names[i]);
            }
        }
        for fmtk in ["display", "debug", "alt_display", "alt_debug", "attr_display", "attr_debug"] {
            // with_attr_getters: extra (benign) attributes after the label must not disturb the statements
            let ea = |_: G, _: G::EdgeRef| "color = red".to_string();
            let na = |_: G, _: G::NodeRef| "shape = box peripheries = 2".to_string();
            let d = if fmtk.starts_with("attr") { Dot::with_attr_getters(g, &cfg, &ea, &na) } else { Dot::with_config(g, &cfg) };
            let text = match fmtk { "display" | "attr_display" => format!("{}", d), "debug" | "attr_debug" => format!("{:?}", d), "alt_display" => format!("{:#}", d), _ => format!("{:#?}", d) };
            let fw = |w: &W| match fmtk { "display" | "alt_display" | "attr_display" => format!("{}", w), _ => format!("{:?}", w) };
            let mut f = Fields::new();
            f.insert("kind".into(), json!("dot"));
            f.insert("cfg".into(), json!(cfgn));
            f.insert("fmt".into(), json!(fmtk));
            f.insert("text".into(), okv(json!(codes(&text))));
            f.insert("is_directed".into(), json!(g.is_directed()));
            f.insert("nidx".into(), json!(g.node_references().map(|r| g.to_index(r.id())).collect::<Vec<_>>()));
            f.insert("eidx".into(), json!(g.edge_references().map(|e| json!([g.to_index(e.source()), g.to_index(e.target())])).collect::<Vec<_>>()));
            f.insert("nlab".into(), json!(g.node_references().map(|r| codes(&fw(r.weight()))).collect::<Vec<_>>()));
            f.insert("elab".into(), json!(g.edge_references().map(|e| codes(&fw(e.weight()))).collect::<Vec<_>>()));
            out.rec("C18", enc, "fresh", ag, f);
        }
    }
}

pub fn dot_case(out: &mut Out, ag: &AG, rng: &mut Rng) {
    out.log.about_to(&json!({"prop": "C18", "kind": "dot", "n": ag.n, "dir": ag.directed, "E": ag.edges_json()}));
    let nw: Vec<String> = (0..ag.n).map(|_| adversarial(rng)).collect();
    let ew: Vec<String> = ag.edges.iter().map(|_| adversarial(rng)).collect();
    macro_rules! build { ($G:ident, $Ty:ty) => {{
        let mut g: $G<String, String, $Ty, u32> = $G::with_capacity(0, 0);
        let ids: Vec<_> = nw.iter().map(|w| g.add_node(w.clone())).collect();
        for (k, &(s, t, _)) in ag.edges.iter().enumerate() { g.add_edge(ids[s], ids[t], ew[k].clone()); }
        g
    }}}
    if ag.directed {
        let g = build!(Graph, Directed);
        dot_record(out, &g, "graph", ag, rng);
        let gc = g.map(|_, w| Chars(w.clone()), |_, w| Chars(w.clone()));
        dot_record(out, &gc, "graph", ag, rng);
        let mut s = build!(StableGraph, Directed);
        if ag.n > 1 { let victim = petgraph::graph::NodeIndex::new(rng.below(ag.n - 1)); s.remove_node(victim); }
        dot_record(out, &s, "stable", ag, rng);
    } else {
        let g = build!(Graph, Undirected);
        dot_record(out, &g, "graph", ag, rng);
        let gc = g.map(|_, w| Chars(w.clone()), |_, w| Chars(w.clone()));
        dot_record(out, &gc, "graph", ag, rng);
        let mut s = build!(StableGraph, Undirected);
        if ag.n > 1 { let victim = petgraph::graph::NodeIndex::new(rng.below(ag.n - 1)); s.remove_node(victim); }
        dot_record(out, &s, "stable", ag, rng);
    }
}

pub fn c18_sweep(seed: u64, small: usize, big: usize, dots: usize, out: &mut Out) {
    let mut rng = Rng::new(seed ^ 0xc18);
    // graph6: all graphs on 0..=4 nodes
    for n in 0..=4usize {
        let pairs: Vec<(usize, usize)> = (0..n).flat_map(|i| (i + 1..n).map(move |j| (i, j))).collect();
        for code in 0..(1u32 << pairs.len()) {
            let edges = pairs.iter().enumerate().filter(|(k, _)| code & (1 << k) != 0).map(|(_, &(i, j))| (i, j, 1)).collect();
            g6_case(out, &AG { n, directed: false, edges }, &mut rng);
        }
    }
    for _ in 0..small {
        let n = 5 + rng.below(8);
        let dens = 1 + rng.below(9) as u32;
        let ag = simple_und(&mut rng, n, dens);
        g6_case(out, &ag, &mut rng);
    }
    // around the 62/63 header switch and up to 70, incl. empty and complete graphs
    for k in 0..big {
        let n = [61usize, 62, 63, 64, 65, 70, 66][k % 7];
        let dens = [0u32, 10, 5, 2, 8][k % 5];
        let ag = simple_und(&mut rng, n, dens);
        g6_case(out, &ag, &mut rng);
    }
    for k in 0..dots {
        let directed = k % 2 == 0;
        let mut ag = random_ag(&mut rng, 4, directed, 1, 3, true, true);
        ag.edges.truncate(5);
        dot_case(out, &ag, &mut rng);
    }
}
