//! Shared helpers: deterministic PRNG, TLC-safe ndjson logger, panic capture.
use serde_json::{json, Value};
use std::io::{BufWriter, Write};
use std::panic::{catch_unwind, AssertUnwindSafe};

/// splitmix64 / xorshift PRNG: deterministic from VERIF_SEED, no external crate.
#[derive(Clone)]
pub struct Rng(pub u64);
impl Rng {
    pub fn new(seed: u64) -> Self {
        let mut r = Rng(seed ^ 0x9E3779B97F4A7C15);
        r.next();
        r
    }
    pub fn next(&mut self) -> u64 {
        self.0 = self.0.wrapping_add(0x9E3779B97F4A7C15);
        let mut z = self.0;
        z = (z ^ (z >> 30)).wrapping_mul(0xBF58476D1CE4E5B9);
        z = (z ^ (z >> 27)).wrapping_mul(0x94D049BB133111EB);
        z ^ (z >> 31)
    }
    /// uniform in 0..n (n>0)
    pub fn below(&mut self, n: usize) -> usize {
        (self.next() % (n as u64)) as usize
    }
    pub fn range(&mut self, lo: i64, hi: i64) -> i64 {
        lo + (self.next() % ((hi - lo + 1) as u64)) as i64
    }
    pub fn chance(&mut self, num: u32, den: u32) -> bool {
        (self.next() % den as u64) < num as u64
    }
    pub fn pick<'a, T>(&mut self, xs: &'a [T]) -> &'a T {
        &xs[self.below(xs.len())]
    }
    pub fn shuffle<T>(&mut self, xs: &mut [T]) {
        for i in (1..xs.len()).rev() {
            let j = self.below(i + 1);
            xs.swap(i, j);
        }
    }
}

/// ndjson writer. TLC's Json module rejects null, truncates floats and wraps
/// integers to 32 bits, so `check_value` refuses all three.
pub struct Log {
    w: BufWriter<Box<dyn Write>>,
    pub lines: usize,
    /// sidecar `<path>.cur`: the op about to be executed, so that a crash or hang of the code under
    /// test (abort, OOM kill, endless loop) can be attributed by the driver that launched us
    cur: Option<std::fs::File>,
}
/// TLC-safety: no null, no floats; integers that do not fit 31 bits (e.g. an `end()` sentinel
/// leaking out of a corrupted structure) are clamped to WIDE so the event is still written and
/// is then rejected by the spec instead of crashing the recorder.
pub const WIDE: i64 = (1 << 31) - 1;
fn check_value(v: &mut Value) {
    match v {
        Value::Null => panic!("null in trace"),
        Value::Number(n) => {
            let ok = n.as_i64().map(|i| i.abs() < WIDE).unwrap_or(false);
            if !ok {
                assert!(n.is_i64() || n.is_u64(), "float in trace");
                *v = Value::from(WIDE);
            }
        }
        Value::Array(a) => a.iter_mut().for_each(check_value),
        Value::Object(o) => o.values_mut().for_each(check_value),
        _ => {}
    }
}
impl Log {
    pub fn to_path(path: &str) -> Log {
        let f: Box<dyn Write> = if path == "-" {
            Box::new(std::io::stdout())
        } else {
            Box::new(std::fs::File::create(path).expect("create trace file"))
        };
        let cur = if path == "-" { None } else { std::fs::File::create(format!("{}.cur", path)).ok() };
        Log { w: BufWriter::with_capacity(1 << 20, f), lines: 0, cur }
    }
    pub fn ev(&mut self, mut v: Value) {
        check_value(&mut v);
        serde_json::to_writer(&mut self.w, &v).unwrap();
        self.w.write_all(b"\n").unwrap();
        self.lines += 1;
    }
    /// Announce the call that is about to run; everything logged so far is made durable first.
    pub fn about_to(&mut self, op: &Value) {
        use std::io::{Seek, SeekFrom};
        if self.cur.is_some() {
            self.w.flush().unwrap();
            let f = self.cur.as_mut().unwrap();
            let txt = serde_json::to_vec(op).unwrap();
            let _ = f.seek(SeekFrom::Start(0));
            let _ = f.set_len(0);
            let _ = f.write_all(&txt);
        }
    }
    pub fn flush(&mut self) {
        self.w.flush().unwrap();
    }
}
impl Drop for Log {
    fn drop(&mut self) {
        let _ = self.w.flush();
    }
}

static GUARD_DEPTH: std::sync::atomic::AtomicUsize = std::sync::atomic::AtomicUsize::new(0);

/// Panics inside `guard` are data and stay silent; any other panic (a harness bug) is printed.
pub fn silence_panics() {
    let default = std::panic::take_hook();
    std::panic::set_hook(Box::new(move |info| {
        if GUARD_DEPTH.load(std::sync::atomic::Ordering::SeqCst) == 0 {
            default(info);
        }
    }));
}

/// Run `f`, turning a panic into Err(()). The panic is *data* for the spec.
pub fn guard<T>(f: impl FnOnce() -> T) -> Result<T, ()> {
    GUARD_DEPTH.fetch_add(1, std::sync::atomic::Ordering::SeqCst);
    let r = catch_unwind(AssertUnwindSafe(f)).map_err(|_| ());
    GUARD_DEPTH.fetch_sub(1, std::sync::atomic::Ordering::SeqCst);
    r
}

// Results are tagged tuples and the tag fixes the payload type, so that TLC
// never compares values of different types:
//   ["i",int] ["b",bool] ["s",str] ["li",[int..]] ["l",[..]] ["none"] ["panic"]
//   ["ok_i",int] ["ok_b",bool] ["err_i",int] ["err_s",str]
pub fn ri(x: usize) -> Value {
    json!(["i", x])
}
pub fn rint(x: i64) -> Value {
    json!(["i", x])
}
pub fn rb(x: bool) -> Value {
    json!(["b", x])
}
pub fn rs(x: &str) -> Value {
    json!(["s", x])
}
pub fn rli(x: Vec<usize>) -> Value {
    json!(["li", x])
}
pub fn rl(x: Vec<Value>) -> Value {
    json!(["l", x])
}
pub fn rpanic() -> Value {
    json!(["panic"])
}
pub fn rnone() -> Value {
    json!(["none"])
}
/// `ret` value for a call that may panic; `r` is already a tagged tuple.
pub fn or_panic(r: Result<Value, ()>) -> Value {
    match r {
        Ok(v) => v,
        Err(()) => rpanic(),
    }
}
pub fn opt_i(o: Option<usize>) -> Value {
    match o {
        Some(x) => ri(x),
        None => rnone(),
    }
}
pub fn res_bi(r: Result<bool, usize>) -> Value {
    match r {
        Ok(b) => json!(["ok_b", b]),
        Err(e) => json!(["err_i", e]),
    }
}
pub fn res_ii(r: Result<usize, usize>) -> Value {
    match r {
        Ok(b) => json!(["ok_i", b]),
        Err(e) => json!(["err_i", e]),
    }
}

/// Simple `--key value` argument parser.
pub struct Args(pub Vec<String>);
impl Args {
    pub fn get(&self, k: &str) -> Option<&str> {
        let key = format!("--{}", k);
        self.0.iter().position(|a| *a == key).and_then(|i| self.0.get(i + 1)).map(|s| s.as_str())
    }
    pub fn num(&self, k: &str, d: u64) -> u64 {
        self.get(k).map(|s| s.parse().expect("numeric arg")).unwrap_or(d)
    }
    pub fn str(&self, k: &str, d: &str) -> String {
        self.get(k).unwrap_or(d).to_string()
    }
    pub fn flag(&self, k: &str) -> bool {
        self.0.iter().any(|a| *a == format!("--{}", k))
    }
}

pub fn read_ndjson(path: &str) -> Vec<Value> {
    let s = std::fs::read_to_string(path).expect("read ndjson");
    s.lines().filter(|l| !l.trim().is_empty()).map(|l| serde_json::from_str(l).expect("json line")).collect()
}
