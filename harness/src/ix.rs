//! Tiny index types: `Tiny<M>` has max() == M, so a Graph/StableGraph over it can
//! hold at most M nodes and M edges (index M is the `end()` sentinel).  This makes
//! histories that reach the index-type limit exhaustively enumerable.
use petgraph::graph::IndexType;

#[derive(Copy, Clone, Default, PartialEq, Eq, PartialOrd, Ord, Hash, Debug, serde::Serialize, serde::Deserialize)]
#[serde(transparent)]
pub struct Tiny<const M: usize>(u8);

unsafe impl<const M: usize> IndexType for Tiny<M> {
    #[inline(always)]
    fn new(x: usize) -> Self {
        Tiny(x as u8)
    }
    #[inline(always)]
    fn index(&self) -> usize {
        self.0 as usize
    }
    #[inline(always)]
    fn max() -> Self {
        Tiny(M as u8)
    }
}

pub type Ix3 = Tiny<3>;
pub type Ix4 = Tiny<4>;
pub type Ix7 = Tiny<7>;

/// max() of an index type as a TLC-safe integer (capped below 2^31; never reached for wide types)
pub fn maxix<Ix: IndexType>() -> usize {
    let m = <Ix as IndexType>::max().index();
    m.min(1_000_000_000)
}

/// index types the drivers can also push through serde (C17)
pub trait SIx: IndexType + serde::Serialize + serde::de::DeserializeOwned {}
impl<T: IndexType + serde::Serialize + serde::de::DeserializeOwned> SIx for T {}
