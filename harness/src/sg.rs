//! C03 GraphMap, C04 MatrixGraph, C05 Csr / adj::List: random-history drivers.  One trace event per
//! public call {op, args.., ret, nc, ec}; `obs` events carry the result of every query.
use crate::common::*;
use petgraph::adj::List;
use petgraph::csr::Csr;
use petgraph::data::Build;
use petgraph::graphmap::GraphMap;
use petgraph::matrix_graph::{MatrixGraph, NotZero, Nullable};
use petgraph::data::DataMap;
use petgraph::visit::*;
use petgraph::Direction::{Incoming, Outgoing};
use petgraph::{Directed, EdgeType, Undirected};
use serde_json::{json, Value};
use std::hash::BuildHasher;

fn ev(log: &mut Log, mut e: Value, ret: Value, nc: usize, ec: usize) {
    e["ret"] = ret;
    e["nc"] = json!(nc);
    e["ec"] = json!(ec);
    log.ev(e);
}
fn pan(r: Result<Value, ()>) -> Value {
    match r {
        Ok(v) => v,
        Err(()) => rpanic(),
    }
}

// ---------------------------------------------------------------------------------------- Csr
pub fn csr_segment<Ty: EdgeType>(rng: &mut Rng, log: &mut Log, len: usize, hub: bool) {
    let directed = Ty::is_directed();
    log.about_to(&json!({"op":"reset","kind":"csr"}));
    log.ev(json!({"op":"reset","kind":"csr","directed":directed}));
    let mut g: Csr<i32, i32, Ty, u32> = Csr::new();
    let mut serial = 0;
    let mut next = || { serial += 1; serial };
    let n0 = if hub { 45 } else { 1 + rng.below(7) };
    for _ in 0..n0 {
        let w = next();
        let r = g.add_node(w);
        ev(log, json!({"op":"add_node","w":w}), ri(r as usize), g.node_count(), g.edge_count());
    }
    if hub {
        // grow the row of node 0 through the 32-entry cutoff in shuffled order; at every size from 28
        // to 40 re-add every existing edge (must answer false and change nothing) and probe every target
        let mut targets: Vec<usize> = (0..n0).collect();
        rng.shuffle(&mut targets);
        for (k, &t) in targets.iter().enumerate() {
            let w = next();
            let e = json!({"op":"add_edge","a":0,"b":t,"w":w});
            log.about_to(&e);
            let ret = pan(guard(|| rb(g.add_edge(0, t as u32, w))));
            ev(log, e, ret, g.node_count(), g.edge_count());
            if (28..=40).contains(&k) {
                for &t2 in targets[..=k].iter() {
                    let w = next();
                    let e = json!({"op":"try_add_edge","a":0,"b":t2,"w":w});
                    let ret = pan(guard(|| match g.try_add_edge(0, t2 as u32, w) { Ok(x) => json!(["ok_b", x]), Err(_) => json!(["err_s", "IndicesOutBounds"]) }));
                    ev(log, e, ret, g.node_count(), g.edge_count());
                }
                let pairs: Vec<Value> = (0..n0).map(|b| json!({"a": 0, "b": b, "ce": rb(g.contains_edge(0, b as u32))})).collect();
                log.ev(json!({"op":"obs","nc":g.node_count(),"ec":g.edge_count(),"directed":g.is_directed(),
                    "nodes": g.node_references().map(|(i, w)| json!([i, *w])).collect::<Vec<_>>(),
                    "edges": g.edge_references().map(|e| json!([e.source(), e.target(), *e.weight()])).collect::<Vec<_>>(),
                    "per": [json!({"a": 0, "nbr": g.neighbors_slice(0).iter().map(|x| *x as usize).collect::<Vec<_>>(), "ews": g.edges_slice(0).to_vec(), "deg": g.out_degree(0)})],
                    "pairs": pairs}));
            }
        }
    }
    for step in 0..len {
        let n = g.node_count();
        let r = rng.below(100);
        let pick = |rng: &mut Rng| if rng.chance(1, 12) { n + rng.below(2) } else { rng.below(n.max(1)) };
        let op = if r < 8 {
            let w = next();
            let x = g.add_node(w);
            ev(log, json!({"op":"add_node","w":w}), ri(x as usize), g.node_count(), g.edge_count());
            continue;
        } else if r < 75 {
            let a = if hub && rng.chance(2, 3) { 0 } else { pick(rng) };
            let b = pick(rng);
            let w = next();
            if rng.chance(1, 2) {
                let e = json!({"op":"try_add_edge","a":a,"b":b,"w":w});
                log.about_to(&e);
                let ret = pan(guard(|| match g.try_add_edge(a as u32, b as u32, w) { Ok(x) => json!(["ok_b", x]), Err(_) => json!(["err_s", "IndicesOutBounds"]) }));
                (e, ret)
            } else {
                let e = json!({"op":"add_edge","a":a,"b":b,"w":w});
                log.about_to(&e);
                let ret = pan(guard(|| rb(g.add_edge(a as u32, b as u32, w))));
                (e, ret)
            }
        } else if r < 78 {
            g.clear_edges();
            (json!({"op":"clear_edges"}), rs("ok"))
        } else if r < 82 {
            g = g.clone();
            (json!({"op":"noeffect","which":"clone"}), rs("ok"))
        } else {
            csr_obs(&g, rng, log);
            continue;
        };
        ev(log, op.0, op.1, g.node_count(), g.edge_count());
        if step % 15 == 14 {
            csr_obs(&g, rng, log);
        }
    }
    csr_obs(&g, rng, log);
}

fn csr_obs<Ty: EdgeType>(g: &Csr<i32, i32, Ty, u32>, rng: &mut Rng, log: &mut Log) {
    let n = g.node_count();
    let nodes: Vec<usize> = if n <= 10 { (0..n).collect() } else { let mut v = vec![0]; v.extend((0..8).map(|_| rng.below(n))); v };
    let per: Vec<Value> = nodes.iter().map(|&a| {
        let a32 = a as u32;
        json!({"a": a, "nbr": g.neighbors_slice(a32).iter().map(|x| *x as usize).collect::<Vec<_>>(),
               "ews": g.edges_slice(a32).to_vec(), "deg": g.out_degree(a32), "nw": g[a32],
               "eo": g.edges(a32).map(|e| json!([e.source(), e.target(), *e.weight()])).collect::<Vec<_>>()})
    }).collect();
    let mut pairs = vec![];
    for _ in 0..14 {
        if n == 0 { break; }
        let a = rng.below(n);
        // probe around existing neighbours as well as at random
        let nb = g.neighbors_slice(a as u32);
        let b = if !nb.is_empty() && rng.chance(2, 3) { let t = nb[rng.below(nb.len())] as i64 + rng.range(-1, 1); t.clamp(0, n as i64 - 1) as usize } else { rng.below(n) };
        pairs.push(json!({"a": a, "b": b, "ce": rb(g.contains_edge(a as u32, b as u32))}));
    }
    log.ev(json!({"op":"obs","nc":n,"ec":g.edge_count(),"directed":g.is_directed(),
        "nodes": g.node_references().map(|(i, w)| json!([i, *w])).collect::<Vec<_>>(),
        "edges": g.edge_references().map(|e| json!([e.source(), e.target(), *e.weight()])).collect::<Vec<_>>(),
        "per": per, "pairs": pairs}));
}

/// from_sorted_edges: sorted lists, lists with one defect (duplicate, swapped pair), empty list
pub fn csr_from_sorted(rng: &mut Rng, log: &mut Log) {
    let n = 1 + rng.below(6);
    let mut edges: Vec<(u32, u32, i32)> = vec![];
    let mut w = 0;
    for s in 0..n {
        for t in 0..n {
            if rng.chance(1, 3) { w += 1; edges.push((s as u32, t as u32, w)); }
        }
    }
    match rng.below(7) {
        0 if edges.len() >= 2 => { let i = rng.below(edges.len() - 1); edges.swap(i, i + 1); }
        1 if !edges.is_empty() => { let i = rng.below(edges.len()); let e = edges[i]; edges.insert(i, e); }
        // any two positions swapped; one element moved anywhere; a sorted prefix followed by an out-of-place edge
        2 if edges.len() >= 2 => { let (i, j) = (rng.below(edges.len()), rng.below(edges.len())); edges.swap(i, j); }
        3 if edges.len() >= 2 => { let i = rng.below(edges.len()); let e = edges.remove(i); let j = rng.below(edges.len() + 1); edges.insert(j, e); }
        4 => { w += 1; edges.push((rng.below(n + 1) as u32, rng.below(n) as u32, w)); }
        _ => {}
    }
    csr_from_sorted_one(&edges, rng, log);
}

/// every list of at most three edges over three nodes: from_sorted_edges must accept exactly the strictly sorted ones
pub fn csr_from_sorted_exhaustive(rng: &mut Rng, log: &mut Log) {
    let pairs: Vec<(u32, u32)> = (0..3).flat_map(|a| (0..3).map(move |b| (a, b))).collect();
    csr_from_sorted_one(&[], rng, log);
    for &a in &pairs {
        csr_from_sorted_one(&[(a.0, a.1, 1)], rng, log);
        for &b in &pairs {
            csr_from_sorted_one(&[(a.0, a.1, 1), (b.0, b.1, 2)], rng, log);
            for &c in &pairs {
                csr_from_sorted_one(&[(a.0, a.1, 1), (b.0, b.1, 2), (c.0, c.1, 3)], rng, log);
            }
        }
    }
}

fn csr_from_sorted_one(edges: &[(u32, u32, i32)], rng: &mut Rng, log: &mut Log) {
    let edges: Vec<(u32, u32, i32)> = edges.to_vec();
    let e = json!({"op":"from_sorted","edges":edges.iter().map(|x| json!([x.0, x.1, x.2])).collect::<Vec<_>>()});
    log.ev(json!({"op":"reset","kind":"csr","directed":true}));
    log.about_to(&e);
    match Csr::<i32, i32, Directed, u32>::from_sorted_edges(&edges) {
        Ok(g) => {
            ev(log, e, rs("ok"), g.node_count(), g.edge_count());
            csr_obs(&g, rng, log);
        }
        Err(_) => ev(log, e, json!(["err_s", "EdgesNotSorted"]), 0, 0),
    }
}

// ---------------------------------------------------------------------------------------- adj::List
pub fn list_segment(rng: &mut Rng, log: &mut Log, len: usize) {
    log.ev(json!({"op":"reset","kind":"list","directed":true}));
    let mut g: List<i32, u32> = if rng.chance(1, 2) { List::new() } else { List::with_capacity(3) };
    let mut serial = 0;
    let mut next = || { serial += 1; serial };
    for _ in 0..1 + rng.below(6) {
        let x = if rng.chance(1, 2) { g.add_node() } else { g.add_node_with_capacity(2) };
        ev(log, json!({"op":"add_node"}), ri(x as usize), g.node_count(), g.edge_count());
    }
    for step in 0..len {
        let n = g.node_count();
        let r = rng.below(100);
        let pick = |rng: &mut Rng| if rng.chance(1, 10) { n + rng.below(2) } else { rng.below(n.max(1)) };
        let (e, ret) = if r < 8 {
            let x = g.add_node();
            (json!({"op":"add_node"}), ri(x as usize))
        } else if r < 50 {
            let (a, b, w) = (pick(rng), pick(rng), next());
            let e = json!({"op":"add_edge","a":a,"b":b,"w":w});
            log.about_to(&e);
            (e, pan(guard(|| { let i = g.add_edge(a as u32, b as u32, w); let (f, _) = g.edge_endpoints(i).unwrap(); json!(["li", [f, eidx_rank(&g, i)]]) })))
        } else if r < 80 {
            let (a, b, w) = (pick(rng), pick(rng), next());
            let e = json!({"op":"update_edge","a":a,"b":b,"w":w});
            log.about_to(&e);
            (e, pan(guard(|| { let i = Build::update_edge(&mut g, a as u32, b as u32, w); json!(["li", [a, eidx_rank(&g, i)]]) })))
        } else if r < 82 {
            g.clear();
            (json!({"op":"clear"}), rs("ok"))
        } else if r < 84 {
            // add_node_from_edges: successors among the existing nodes or the new node itself, parallel targets allowed
            let k = rng.below(4);
            let edges: Vec<(usize, i32)> = (0..k).map(|_| (rng.below(n + 1), next())).collect();
            let e = json!({"op":"add_node_from_edges","edges":edges.iter().map(|x| json!([x.0, x.1])).collect::<Vec<_>>()});
            log.about_to(&e);
            (e, pan(guard(|| ri(g.add_node_from_edges(edges.iter().map(|&(t, w)| (t as u32, w))) as usize))))
        } else if r < 86 && n > 0 {
            // DataMapMut::edge_weight_mut on an edge index (present or one past the row)
            use petgraph::data::DataMapMut;
            let a = rng.below(n);
            let row: Vec<_> = g.edge_indices_from(a as u32).collect();
            let rank = rng.below(row.len() + 1);
            let w = next();
            let e = json!({"op":"list_set_edge_weight","a":a,"rank":rank,"w":w});
            log.about_to(&e);
            let ret = if rank < row.len() {
                pan(guard(|| match g.edge_weight_mut(row[rank]) { Some(x) => { let o = *x; *x = w; rint(o as i64) } None => rnone() }))
            } else { rnone() };
            (e, ret)
        } else if r < 88 {
            g = g.clone();
            (json!({"op":"noeffect","which":"clone"}), rs("ok"))
        } else {
            list_obs(&g, rng, log);
            continue;
        };
        ev(log, e, ret, g.node_count(), g.edge_count());
        if step % 15 == 14 {
            list_obs(&g, rng, log);
        }
    }
    list_obs(&g, rng, log);
}

/// rank of an edge index inside its row: the k-th edge index of `from`
fn eidx_rank(g: &List<i32, u32>, i: petgraph::adj::EdgeIndex<u32>) -> usize {
    let (from, _) = g.edge_endpoints(i).expect("edge index valid");
    g.edge_indices_from(from).position(|x| x == i).expect("edge index listed in its row")
}

fn list_obs(g: &List<i32, u32>, rng: &mut Rng, log: &mut Log) {
    let n = g.node_count();
    let per: Vec<Value> = (0..n).map(|a| {
        let a32 = a as u32;
        // reverse iteration driven externally (next_back), internally (rfold through rev().fold) and by last()
        let mut nb = g.neighbors(a32);
        let mut rev_nb = vec![];
        while let Some(x) = nb.next_back() { rev_nb.push(x as usize); }
        let rev_fold: Vec<usize> = g.neighbors(a32).rev().fold(vec![], |mut v, x| { v.push(x as usize); v });
        let rev_last: Vec<usize> = g.neighbors(a32).rev().last().map(|x| vec![x as usize]).unwrap_or_default();
        json!({"a": a, "nbr": g.neighbors(a32).map(|x| x as usize).collect::<Vec<_>>(),
               "nbr_rev": [rev_nb, rev_fold, rev_last],
               "deg": g.edge_indices_from(a32).count(),
               "eo": g.edge_indices_from(a32).map(|i| { let (s, t) = g.edge_endpoints(i).unwrap(); json!([s, t, *g.edge_weight(i).unwrap()]) }).collect::<Vec<_>>()})
    }).collect();
    let mut pairs = vec![];
    for _ in 0..12 {
        let (a, b) = (rng.below(n + 1), rng.below(n + 1));
        pairs.push(json!({"a": a, "b": b, "ce": rb(g.contains_edge(a as u32, b as u32)),
            "fe": match g.find_edge(a as u32, b as u32) { Some(i) => json!(["li", [a, eidx_rank(g, i)]]), None => rnone() }}));
    }
    // edge ids in row-major order, through edge_indices and through edge_references: must agree
    let erefs: Vec<Value> = g.edge_references().map(|e| json!([e.source(), eidx_rank(g, e.id()), e.target(), *e.weight()])).collect();
    let eidx: Vec<Value> = g.edge_indices().map(|i| { let (s, t) = g.edge_endpoints(i).unwrap(); json!([s, eidx_rank(g, i), t, *g.edge_weight(i).unwrap()]) }).collect();
    let erefs_field = if erefs == eidx { json!(erefs) } else { json!([["edge_indices and edge_references disagree", erefs.len(), eidx.len()]]) };
    let nidx_rfold: Vec<usize> = g.node_indices().rev().fold(vec![], |mut v, x| { v.push(x as usize); v });
    log.ev(json!({"op":"obs","nc":n,"ec":g.edge_count(),"directed":true,
        "nidx_rfold": nidx_rfold,
        "nodes": g.node_indices().map(|i| json!([i, 0])).collect::<Vec<_>>(),
        "edges": g.edge_references().map(|e| json!([e.source(), e.target(), *e.weight()])).collect::<Vec<_>>(),
        "erefs": erefs_field, "per": per, "pairs": pairs}));
}

// ---------------------------------------------------------------------------------------- GraphMap
/// a deliberately terrible hasher: everything collides
#[derive(Clone, Default)]
pub struct ConstHasher;
impl std::hash::Hasher for ConstHasher {
    fn finish(&self) -> u64 { 42 }
    fn write(&mut self, _: &[u8]) {}
}
impl BuildHasher for ConstHasher {
    type Hasher = ConstHasher;
    fn build_hasher(&self) -> ConstHasher { ConstHasher }
}

thread_local! { pub static SERDE_HEAVY: std::cell::Cell<bool> = std::cell::Cell::new(false); }

pub fn map_segment<Ty: EdgeType + Clone, S: BuildHasher + Default + Clone>(rng: &mut Rng, log: &mut Log, len: usize, hname: &str) {
    let heavy = SERDE_HEAVY.with(|c| c.get());
    let directed = Ty::is_directed();
    log.ev(json!({"op":"reset","kind":"map","directed":directed,"hasher":hname}));
    let mut g: GraphMap<i32, i32, Ty, S> = GraphMap::with_capacity_and_hasher(0, 0, S::default());
    let mut serial = 0;
    let mut next = || { serial += 1; serial };
    let keys: Vec<i32> = (0..(3 + rng.below(8))).map(|i| (i as i32) * 37 % 23 - 5).collect();
    let key = |rng: &mut Rng| keys[rng.below(keys.len())];
    for step in 0..len {
        let r = rng.below(100);
        // C17 driver: a third of the calls are loads of foreign streams or serde round trips of the map itself
        let r = if heavy && rng.chance(1, 3) { if rng.chance(1, 2) { 86 } else { 89 } } else { r };
        let (e, ret) = if r < 12 {
            let n = key(rng);
            (json!({"op":"add_node","n":n}), rint(g.add_node(n) as i64))
        } else if r < 50 {
            // favour self-loops, reciprocal pairs and re-adding
            let a = key(rng);
            let b = match rng.below(6) { 0 => a, _ => key(rng) };
            let w = next();
            let (a, b) = if rng.chance(1, 4) { (b, a) } else { (a, b) };
            (json!({"op":"add_edge","a":a,"b":b,"w":w}), match g.add_edge(a, b, w) { Some(o) => rint(o as i64), None => rnone() })
        } else if r < 56 {
            // the data::Build route (add_edge refuses an existing pair, update_edge overwrites) and data::FromElements
            let a = key(rng);
            let b = match rng.below(6) { 0 => a, _ => key(rng) };
            let w = next();
            match rng.below(5) {
                0 | 1 => {
                    let e = json!({"op":"build_add_edge","a":a,"b":b,"w":w});
                    log.about_to(&e);
                    (e, pan(guard(|| rb(Build::add_edge(&mut g, a, b, w).is_some()))))
                }
                2 | 3 => {
                    let e = json!({"op":"build_update_edge","a":a,"b":b,"w":w});
                    log.about_to(&e);
                    (e, pan(guard(|| { Build::update_edge(&mut g, a, b, w); rs("ok") })))
                }
                _ => {
                    use petgraph::data::{Element, FromElements};
                    let mut nodes: Vec<i32> = keys.clone();
                    nodes.sort(); nodes.dedup();
                    rng.shuffle(&mut nodes);
                    nodes.truncate(1 + rng.below(nodes.len()));
                    let nn = nodes.len();
                    let mut edges: Vec<(usize, usize, i32)> = vec![];
                    for _ in 0..rng.below(7) {
                        let (x, y) = if !edges.is_empty() && rng.chance(1, 3) { let (x, y, _) = edges[rng.below(edges.len())]; if rng.chance(1, 2) { (x, y) } else { (y, x) } } else { (rng.below(nn), rng.below(nn)) };
                        edges.push((x, y, next()));
                    }
                    let e = json!({"op":"from_elements","nodes":nodes,"edges":edges.iter().map(|&(x, y, w)| json!([nodes[x], nodes[y], w])).collect::<Vec<_>>()});
                    log.about_to(&e);
                    let els: Vec<Element<i32, i32>> = nodes.iter().map(|&k| Element::Node { weight: k })
                        .chain(edges.iter().map(|&(x, y, w)| Element::Edge { source: x, target: y, weight: w })).collect();
                    match guard(|| GraphMap::<i32, i32, Ty, S>::from_elements(els)) {
                        Ok(m) => { g = m; (e, rs("ok")) }
                        Err(()) => (e, json!(["panic"])),
                    }
                }
            }
        } else if r < 62 {
            let (a, b) = (key(rng), key(rng));
            (json!({"op":"remove_edge","a":a,"b":b}), match g.remove_edge(a, b) { Some(o) => rint(o as i64), None => rnone() })
        } else if r < 72 {
            let n = key(rng);
            (json!({"op":"remove_node","n":n}), rb(g.remove_node(n)))
        } else if r < 80 {
            let (a, b, w) = (key(rng), key(rng), next());
            let via = *rng.pick(&["edge_weight_mut", "index_mut", "all_edges_mut"]);
            let e = json!({"op":"set_edge_weight","a":a,"b":b,"w":w,"via":via});
            log.about_to(&e);
            let ret = match via {
                "index_mut" => pan(guard(|| { let old = g[(a, b)]; g[(a, b)] = w; rint(old as i64) })),
                "all_edges_mut" => {
                    let mut old = None;
                    for (s, t, x) in g.all_edges_mut() {
                        if (s == a && t == b) || (!directed && s == b && t == a) { old = Some(*x); *x = w; }
                    }
                    match old { Some(o) => rint(o as i64), None => rnone() }
                }
                _ => match g.edge_weight_mut(a, b) { Some(x) => { let o = *x; *x = w; rint(o as i64) } None => rnone() },
            };
            (e, ret)
        } else if r < 83 {
            let k = 1 + rng.below(3);
            let edges: Vec<(i32, i32, i32)> = (0..k).map(|_| (key(rng), key(rng), next())).collect();
            // the IntoWeightedEdge forms: owned triples, triples with borrowed weights (what all_edges() yields), references
            match rng.below(3) {
                0 => g.extend(edges.iter().cloned()),
                1 => g.extend(edges.iter().map(|t| (t.0, t.1, &t.2))),
                _ => g.extend(edges.iter()),
            }
            (json!({"op":"extend","edges":edges.iter().map(|x| json!([x.0, x.1, x.2])).collect::<Vec<_>>()}), rs("ok"))
        } else if r < 85 {
            g.clear();
            (json!({"op":"clear"}), rs("ok"))
        } else if r < 88 {
            // C17/C03: a GraphMap loaded from a Graph (directly, or through its serde wire format, which is a Graph):
            // repeated node weights and parallel edges (for undirected also a-b plus b-a) must collapse
            let nn = 1 + rng.below(5);
            let nodes: Vec<i32> = (0..nn).map(|_| key(rng)).collect();
            let mut h: petgraph::Graph<i32, i32, Ty, u32> = petgraph::Graph::with_capacity(0, 0);
            let ids: Vec<_> = nodes.iter().map(|&k| h.add_node(k)).collect();
            let mut edges = vec![];
            for _ in 0..rng.below(7) {
                let (a, b) = if !edges.is_empty() && rng.chance(1, 3) {
                    let (a, b, _): (usize, usize, i32) = edges[rng.below(edges.len())];
                    if rng.chance(1, 2) { (a, b) } else { (b, a) }
                } else { (rng.below(nn), rng.below(nn)) };
                let w = next();
                h.add_edge(ids[a], ids[b], w);
                edges.push((a, b, w));
            }
            let via = *rng.pick(&["from_graph", "bincode", "json"]);
            let e = json!({"op":"load","via":via,"nodes":nodes,"edges":edges.iter().map(|&(a, b, w)| json!([nodes[a], nodes[b], w])).collect::<Vec<_>>()});
            log.about_to(&e);
            let loaded: Result<Result<GraphMap<i32, i32, Ty, S>, String>, ()> = guard(|| match via {
                "from_graph" => Ok(GraphMap::from_graph(h.clone())),
                "bincode" => bincode::deserialize(&bincode::serialize(&h).unwrap()).map_err(|e| e.to_string()),
                _ => serde_json::from_str(&serde_json::to_string(&h).unwrap()).map_err(|e| e.to_string()),
            });
            match loaded {
                Ok(Ok(m)) => { g = m; (e, rs("ok")) }
                Ok(Err(msg)) => (e, json!(["err_s", msg])),
                Err(()) => (e, json!(["panic"])),
            }
        } else if r < 91 {
            // clone, and GraphMap -> Graph -> GraphMap: same graph
            if heavy || rng.chance(1, 3) {
                // the map's own serde round trip (bincode or JSON): the same map comes back
                let via = *rng.pick(&["bincode", "json"]);
                let e = json!({"op":"noeffect","which":format!("serde_{}", via)});
                log.about_to(&e);
                let back: Result<Result<GraphMap<i32, i32, Ty, S>, String>, ()> = guard(|| if via == "bincode" {
                    bincode::deserialize(&bincode::serialize(&g).unwrap()).map_err(|e| e.to_string())
                } else {
                    serde_json::from_str(&serde_json::to_string(&g).unwrap()).map_err(|e| e.to_string())
                });
                match back {
                    Ok(Ok(m)) => { g = m; (e, rs("ok")) }
                    Ok(Err(msg)) => (e, json!(["err_s", msg])),
                    Err(()) => (e, json!(["panic"])),
                }
            }
            else if rng.chance(1, 2) { g = g.clone(); (json!({"op":"noeffect","which":"clone"}), rs("ok")) }
            else {
                let h = g.clone().into_graph::<u32>();
                let back: GraphMap<i32, i32, Ty, S> = GraphMap::from_graph(h);
                g = back;
                (json!({"op":"noeffect","which":"into_graph_from_graph"}), rs("ok"))
            }
        } else {
            map_obs(&g, rng, log, &keys);
            continue;
        };
        ev(log, e, ret, g.node_count(), g.edge_count());
        if step % 12 == 11 {
            map_obs(&g, rng, log, &keys);
        }
    }
    map_obs(&g, rng, log, &keys);
}

fn map_obs<Ty: EdgeType, S: BuildHasher>(g: &GraphMap<i32, i32, Ty, S>, _rng: &mut Rng, log: &mut Log, keys: &[i32]) {
    let mut ks: Vec<i32> = keys.to_vec();
    ks.sort();
    ks.dedup();
    ks.push(99); // never a node
    let per: Vec<Value> = ks.iter().map(|&a| {
        if !g.contains_node(a) {
            json!({"a": a, "nbr": g.neighbors(a).collect::<Vec<_>>(), "nin": g.neighbors_directed(a, Incoming).collect::<Vec<_>>(),
                   "eo": g.edges(a).map(|(s, t, w)| json!([s, t, *w])).collect::<Vec<_>>(),
                   "ei": g.edges_directed(a, Incoming).map(|(s, t, w)| json!([s, t, *w])).collect::<Vec<_>>()})
        } else {
            json!({"a": a, "nbr": g.neighbors(a).collect::<Vec<_>>(),
                   "nin": g.neighbors_directed(a, Incoming).collect::<Vec<_>>(),
                   "eo": g.edges_directed(a, Outgoing).map(|(s, t, w)| json!([s, t, *w])).collect::<Vec<_>>(),
                   "eo2": g.edges(a).map(|(s, t, w)| json!([s, t, *w])).collect::<Vec<_>>(),
                   "ei": g.edges_directed(a, Incoming).map(|(s, t, w)| json!([s, t, *w])).collect::<Vec<_>>(),
                   "deg": g.neighbors_directed(a, Outgoing).count(), "nw": a})
        }
    }).collect();
    let mut pairs = vec![];
    for &a in &ks {
        for &b in &ks {
            pairs.push(json!({"a": a, "b": b, "ce": rb(g.contains_edge(a, b)), "ew": match g.edge_weight(a, b) { Some(w) => rint(*w as i64), None => rnone() }}));
        }
    }
    // graph through into_graph: node weights are the keys, edges keep weights
    let h = g.clone_for_obs();
    log.ev(json!({"op":"obs","nc":g.node_count(),"ec":g.edge_count(),"directed":g.is_directed(),
        "nodes": g.nodes().map(|n| json!([n, n])).collect::<Vec<_>>(),
        "edges": g.all_edges().map(|(s, t, w)| json!([s, t, *w])).collect::<Vec<_>>(),
        "ix": g.nodes().map(|n| json!([n, NodeIndexable::to_index(g, n), NodeIndexable::from_index(g, NodeIndexable::to_index(g, n))])).collect::<Vec<_>>(),
        // EdgeIndexable: a compact numbering of the edges, inverse to from_index, below edge_bound
        "eix": g.all_edges().map(|(s, t, _)| { use petgraph::visit::EdgeIndexable;
                    let i = EdgeIndexable::to_index(g, (s, t)); let back = EdgeIndexable::from_index(g, i);
                    json!([i, back == (s, t) || (!g.is_directed() && back == (t, s))]) }).collect::<Vec<_>>(),
        "ebound": petgraph::visit::EdgeIndexable::edge_bound(g),
        "bound": 1000, "per": per, "pairs": pairs, "via_graph": h}));
}

trait CloneForObs { fn clone_for_obs(&self) -> Value; }
impl<Ty: EdgeType, S: BuildHasher> CloneForObs for GraphMap<i32, i32, Ty, S> {
    /// the same graph as seen through `IntoNodeReferences` / `IntoEdgeReferences` (no clone needed)
    fn clone_for_obs(&self) -> Value {
        let nodes: Vec<i32> = self.node_references().map(|(n, _)| n).collect();
        let edges: Vec<Value> = self.edge_references().map(|e| json!([e.source(), e.target(), *e.weight()])).collect();
        json!({"nodes": nodes, "edges": edges})
    }
}

// ---------------------------------------------------------------------------------------- MatrixGraph
type Mx<Ty, Null, Ix> = MatrixGraph<i32, i32, std::collections::hash_map::RandomState, Ty, Null, Ix>;
type MIx<Ix> = petgraph::matrix_graph::NodeIndex<Ix>;

pub fn matrix_segment<Ty: EdgeType + 'static, Null: Nullable<Wrapped = i32> + 'static, Ix: petgraph::graph::IndexType>(rng: &mut Rng, log: &mut Log, len: usize, target_nodes: usize, nullname: &str, ixname: &str) {
    let directed = Ty::is_directed();
    log.ev(json!({"op":"reset","kind":"matrix","directed":directed,"null":nullname,"ix":ixname}));
    // one segment in three starts from an exactly-sized, completely filled matrix (every cell of the old layout
    // occupied, non-power-of-two widths included) so that the first growth has to move every row correctly
    let dense = rng.chance(1, 3);
    let cap = if dense { *rng.pick(&[2usize, 3, 5, 6, 7]) } else { *rng.pick(&[0usize, 1, 3, 4, 5]) };
    let mut forced: std::collections::VecDeque<Option<(usize, usize)>> = Default::default();
    if dense {
        for _ in 0..cap { forced.push_back(None); }
        for a in 0..cap { for b in 0..cap { if directed || a <= b { forced.push_back(Some((a, b))); } } }
        forced.push_back(None); // the node that triggers the growth
    }
    let len = len + forced.len();
    let mut g: Mx<Ty, Null, Ix> = MatrixGraph::with_capacity(cap);
    let mut serial = 0;
    let mut next = || { serial += 1; serial };
    let ixmax = <Ix as petgraph::graph::IndexType>::max().index().min(300);
    let ni = |x: usize| MIx::<Ix>::new(x);
    for step in 0..len {
        let live: Vec<usize> = g.node_identifiers_vec();
        let nb = g.node_bound();
        // C04 quantifies over calls between EXISTING nodes only: arguments are always live ids
        let pick = |rng: &mut Rng| -> usize { live[rng.below(live.len())] };
        let _ = nb;
        let fop = forced.pop_front();
        let r = match fop { Some(None) => 0, Some(Some(_)) => 300, None => if live.is_empty() { 0 } else { rng.below(1000) } };
        let grow = live.len() < target_nodes;
        let (e, ret) = if r < (if grow { 200 } else { 40 }) {
            if live.len() >= ixmax { continue; }
            let w = next();
            let e = json!({"op":"add_node","w":w});
            log.about_to(&e);
            if rng.chance(1, 3) {
                // try_add_node: the same contract below the index limit (the driver stays below it)
                (e, pan(guard(|| match g.try_add_node(w) { Ok(i) => ri(i.index()), Err(_) => json!(["err_s", "NodeIxLimit"]) })))
            } else {
                (e, pan(guard(|| ri(g.add_node(w).index()))))
            }
        } else if r < 560 {
            let (a, b, w) = (pick(rng), if rng.chance(1, 8) { usize::MAX } else { pick(rng) }, next());
            let a2 = a;
            let b = if b == usize::MAX { a2 } else { b };
            let mut which = *rng.pick(&["add_edge", "update_edge", "update_edge", "try_update_edge", "add_or_update_edge"]);
            let (a, b) = if let Some(Some(ab)) = fop { ab } else { (a, b) };
            // add_edge on an existing edge is a documented panic (the state afterwards is not specified)
            if which == "add_edge" && g.has_edge(ni(a), ni(b)) { which = "update_edge"; }
            let e = json!({"op":which,"a":a,"b":b,"w":w});
            log.about_to(&e);
            let ret = match which {
                "add_edge" => pan(guard(|| { g.add_edge(ni(a), ni(b), w); rs("ok") })),
                "update_edge" => pan(guard(|| match g.update_edge(ni(a), ni(b), w) { Some(o) => rint(o as i64), None => rnone() })),
                "add_or_update_edge" => pan(guard(|| match g.add_or_update_edge(ni(a), ni(b), w) { Ok(Some(o)) => json!(["ok_i", o]), Ok(None) => json!(["ok_none"]), Err(_) => json!(["err_s", "NodeMissed"]) })),
                _ => pan(guard(|| match g.try_update_edge(ni(a), ni(b), w) { Ok(Some(o)) => json!(["ok_i", o]), Ok(None) => json!(["ok_none"]), Err(_) => json!(["err_s", "NodeMissed"]) })),
            };
            (e, ret)
        } else if r < 700 {
            let (a, b) = (pick(rng), pick(rng));
            // prefer an existing edge
            let (a, b) = { let es: Vec<(usize, usize)> = g.edge_references().map(|e| (e.source().index(), e.target().index())).collect();
                           if !es.is_empty() && rng.chance(2, 3) { es[rng.below(es.len())] } else { (a, b) } };
            let which = *rng.pick(&["remove_edge", "try_remove_edge", "try_remove_edge"]);
            let e = json!({"op":which,"a":a,"b":b});
            log.about_to(&e);
            let ret = if which == "remove_edge" { pan(guard(|| rint(g.remove_edge(ni(a), ni(b)) as i64))) }
                      else { pan(guard(|| match g.try_remove_edge(ni(a), ni(b)) { Some(o) => rint(o as i64), None => rnone() })) };
            (e, ret)
        } else if r < 790 {
            let a = pick(rng);
            let e = json!({"op":"remove_node","a":a});
            log.about_to(&e);
            (e, pan(guard(|| rint(g.remove_node(ni(a)) as i64))))
        } else if r < 820 {
            let (a, w) = (pick(rng), next());
            let e = json!({"op":"set_node_weight","a":a,"w":w});
            (e, match g.get_node_weight_mut(ni(a)) { Some(x) => { let o = *x; *x = w; rint(o as i64) } None => rnone() })
        } else if r < 825 {
            g.clear();
            (json!({"op":"clear"}), rs("ok"))
        } else if r < 832 {
            // edge_weight_mut (panics when there is no such edge) / get_edge_weight_mut (None)
            let (a, b) = { let es: Vec<(usize, usize)> = g.edge_references().map(|e| (e.source().index(), e.target().index())).collect();
                           if !es.is_empty() && rng.chance(3, 4) { es[rng.below(es.len())] } else { (pick(rng), pick(rng)) } };
            let w = next();
            let via = *rng.pick(&["mx_edge_weight_mut", "get_edge_weight_mut"]);
            let e = json!({"op":"set_edge_weight","a":a,"b":b,"w":w,"via":via});
            log.about_to(&e);
            let ret = if via == "mx_edge_weight_mut" {
                pan(guard(|| { let x = g.edge_weight_mut(ni(a), ni(b)); let o = *x; *x = w; rint(o as i64) }))
            } else {
                pan(guard(|| match g.get_edge_weight_mut(ni(a), ni(b)) { Some(x) => { let o = *x; *x = w; rint(o as i64) } None => rnone() }))
            };
            (e, ret)
        } else if r < 840 && live.len() == nb && live.len() >= 2 {
            // extend_with_edges on a hole-free graph, existing endpoints, absent pairs (add_edge panics on a present one)
            let mut edges: Vec<(usize, usize, i32)> = vec![];
            for _ in 0..1 + rng.below(3) {
                let (a, b) = (pick(rng), pick(rng));
                let dup = edges.iter().any(|&(x, y, _)| (x, y) == (a, b) || (!directed && (x, y) == (b, a)));
                if !g.has_edge(ni(a), ni(b)) && !dup { edges.push((a, b, next())); }
            }
            let e = json!({"op":"extend","edges":edges.iter().map(|x| json!([x.0, x.1, x.2])).collect::<Vec<_>>()});
            log.about_to(&e);
            let ret = pan(guard(|| { g.extend_with_edges(edges.iter().map(|&(a, b, w)| (ni(a), ni(b), w))); rs("ok") }));
            (e, ret)
        } else if r < 850 {
            // NotZero is not Clone, so the matrix cannot be cloned generically: touch node_weight_mut instead
            (json!({"op":"noeffect","which":"len"}), rs("ok"))
        } else {
            matrix_obs(&g, rng, log);
            continue;
        };
        ev(log, e, ret, g.node_count(), g.edge_count());
        if step % 14 == 13 {
            matrix_obs(&g, rng, log);
            if let Some(d) = (&g as &dyn std::any::Any).downcast_ref::<Mx<Directed, Null, Ix>>() {
                matrix_dir_obs(d, log);
            }
        }
    }
    matrix_obs(&g, rng, log);
    if let Some(d) = (&g as &dyn std::any::Any).downcast_ref::<Mx<Directed, Null, Ix>>() {
        matrix_dir_obs(d, log);
    }
}

trait NodeIdsVec { fn node_identifiers_vec(&self) -> Vec<usize>; }
impl<Ty: EdgeType, Null: Nullable<Wrapped = i32>, Ix: petgraph::graph::IndexType> NodeIdsVec for Mx<Ty, Null, Ix> {
    fn node_identifiers_vec(&self) -> Vec<usize> {
        use petgraph::visit::IntoNodeIdentifiers;
        self.node_identifiers().map(|i| i.index()).collect()
    }
}

fn matrix_obs<Ty: EdgeType, Null: Nullable<Wrapped = i32>, Ix: petgraph::graph::IndexType>(g: &Mx<Ty, Null, Ix>, rng: &mut Rng, log: &mut Log) {
    let live = g.node_identifiers_vec();
    let ni = |x: usize| MIx::<Ix>::new(x);
    let sample: Vec<usize> = if live.len() <= 9 { live.clone() } else { (0..9).map(|_| live[rng.below(live.len())]).collect() };
    let per: Vec<Value> = sample.iter().map(|&a| {
        json!({"a": a, "nw": *g.node_weight(ni(a)),
               "nbr": g.neighbors(ni(a)).map(|x| x.index()).collect::<Vec<_>>(),
               "eo": g.edges(ni(a)).map(|(s, t, w)| json!([s.index(), t.index(), *w])).collect::<Vec<_>>(),
               "deg": g.edges(ni(a)).count()})
    }).collect();
    let mut pairs = vec![];
    let nb = g.node_bound();
    for _ in 0..16 {
        if live.is_empty() { break; }
        let (a, b) = (live[rng.below(live.len())], live[rng.below(live.len())]);
        pairs.push(json!({"a": a, "b": b, "ce": pan(guard(|| rb(g.has_edge(ni(a), ni(b))))),
            "ew": match guard(|| g.get_edge_weight(ni(a), ni(b)).copied()) { Ok(Some(w)) => rint(w as i64), _ => rnone() }}));
    }
    log.ev(json!({"op":"obs","nc":g.node_count(),"ec":g.edge_count(),"directed":g.is_directed(),
        "nodes": g.node_references().map(|(i, w)| json!([i.index(), *w])).collect::<Vec<_>>(),
        "edges": g.edge_references().map(|e| json!([e.source().index(), e.target().index(), *e.weight()])).collect::<Vec<_>>(),
        "bound": nb, "per": per, "pairs": pairs}));
}

/// MatrixGraph<Directed> also has neighbors_directed / edges_directed
pub fn matrix_dir_obs<Null: Nullable<Wrapped = i32>, Ix: petgraph::graph::IndexType>(g: &Mx<Directed, Null, Ix>, log: &mut Log) {
    let live = g.node_identifiers_vec();
    let ni = |x: usize| MIx::<Ix>::new(x);
    let per: Vec<Value> = live.iter().take(10).map(|&a| {
        json!({"a": a,
               "nin": g.neighbors_directed(ni(a), Incoming).map(|x| x.index()).collect::<Vec<_>>(),
               "nbr": g.neighbors_directed(ni(a), Outgoing).map(|x| x.index()).collect::<Vec<_>>(),
               "ei": g.edges_directed(ni(a), Incoming).map(|(s, t, w)| json!([s.index(), t.index(), *w])).collect::<Vec<_>>(),
               "eo": g.edges_directed(ni(a), Outgoing).map(|(s, t, w)| json!([s.index(), t.index(), *w])).collect::<Vec<_>>()})
    }).collect();
    log.ev(json!({"op":"obs","nc":g.node_count(),"ec":g.edge_count(),"directed":true,
        "nodes": g.node_references().map(|(i, w)| json!([i.index(), *w])).collect::<Vec<_>>(),
        "edges": g.edge_references().map(|e| json!([e.source().index(), e.target().index(), *e.weight()])).collect::<Vec<_>>(),
        "per": per, "pairs": Vec::<Value>::new()}));
}

// ---------------------------------------------------------------------------------------- drivers
pub fn gen_c05(seed: u64, segments: usize, len: usize, log: &mut Log) {
    let mut rng = Rng::new(seed);
    csr_from_sorted_exhaustive(&mut rng, log);
    for i in 0..segments {
        match i % 6 {
            0 => csr_segment::<Directed>(&mut rng, log, len, false),
            1 => csr_segment::<Undirected>(&mut rng, log, len, false),
            2 => list_segment(&mut rng, log, len),
            3 => csr_from_sorted(&mut rng, log),
            4 => csr_segment::<Directed>(&mut rng, log, len / 2, true), // a hub row crossing the 32-entry cutoff
            _ => csr_segment::<Undirected>(&mut rng, log, len / 2, true),
        }
    }
}

pub fn gen_c03(seed: u64, segments: usize, len: usize, log: &mut Log) {
    let mut rng = Rng::new(seed);
    for i in 0..segments {
        match i % 6 {
            0 => map_segment::<Directed, std::collections::hash_map::RandomState>(&mut rng, log, len, "RandomState"),
            1 => map_segment::<Undirected, std::collections::hash_map::RandomState>(&mut rng, log, len, "RandomState"),
            2 => map_segment::<Directed, fxhash::FxBuildHasher>(&mut rng, log, len, "fx"),
            3 => map_segment::<Undirected, fxhash::FxBuildHasher>(&mut rng, log, len, "fx"),
            4 => map_segment::<Directed, ConstHasher>(&mut rng, log, len, "const"),
            _ => map_segment::<Undirected, ConstHasher>(&mut rng, log, len, "const"),
        }
    }
}

/// C17: GraphMap serde - the C03 driver with loads of foreign Graph streams and own round trips dominating
pub fn gen_c17_map(seed: u64, segments: usize, len: usize, log: &mut Log) {
    SERDE_HEAVY.with(|c| c.set(true));
    gen_c03(seed, segments, len, log);
    SERDE_HEAVY.with(|c| c.set(false));
}

pub fn gen_c04(seed: u64, segments: usize, len: usize, log: &mut Log) {
    let mut rng = Rng::new(seed);
    for i in 0..segments {
        // node-count targets on both sides of the 4/8/16/32/64 capacity steps
        let target = [3usize, 5, 9, 17, 33, 66, 6, 12][i % 8];
        let l = len + target * 6;
        match i % 6 {
            0 => matrix_segment::<Directed, Option<i32>, u16>(&mut rng, log, l, target, "Option", "u16"),
            1 => matrix_segment::<Undirected, Option<i32>, u16>(&mut rng, log, l, target, "Option", "u16"),
            2 => matrix_segment::<Directed, NotZero<i32>, u8>(&mut rng, log, l, target, "NotZero", "u8"),
            3 => matrix_segment::<Undirected, NotZero<i32>, u32>(&mut rng, log, l, target, "NotZero", "u32"),
            4 => matrix_segment::<Directed, Option<i32>, usize>(&mut rng, log, l, target, "Option", "usize"),
            _ => matrix_segment::<Undirected, Option<i32>, u8>(&mut rng, log, l, target, "Option", "u8"),
        }
    }
}

// ------------------------------------------------------------------------------------------------
// MatrixGrow.tla -> implementation: each completed behaviour of the growth model is one call of the real
// (private) growth routine, reached through the cfg(petgraph_verif) hook; the Vec is compared cell by cell.
#[derive(Clone, PartialEq, Debug)]
struct Cell(i64, i64);
impl Default for Cell {
    fn default() -> Self {
        Cell(-1, -1)
    }
}

fn grow_one<Ty: petgraph::EdgeType>(old: usize, req: usize, exact: bool) -> Result<(usize, Vec<Cell>, Vec<Value>), ()> {
    use petgraph::matrix_graph::{verif_extend_linearized_matrix as grow, verif_linearized_matrix_position as pos};
    guard(|| {
        // a fully populated old matrix laid out by the real position function with the old width
        let mut v: Vec<Cell> = vec![];
        for r in 0..old {
            for k in 0..old {
                if Ty::is_directed() || r >= k {
                    let p = pos::<Ty>(r, k, old);
                    if v.len() <= p {
                        v.resize_with(p + 1, Cell::default);
                    }
                    v[p] = Cell(r as i64, k as i64);
                }
            }
        }
        let new = grow::<Ty, Cell>(&mut v, old, req, exact);
        // what the real position function finds with the new width
        let mut found = vec![];
        for r in 0..new {
            for k in 0..new {
                let p = pos::<Ty>(r, k, new);
                let c = v.get(p).cloned().unwrap_or(Cell(-2, -2));
                found.push(json!([r, k, c.0, c.1]));
            }
        }
        (new, v, found)
    })
}

pub fn mx_grow(calls: &[Value], log: &mut Log) {
    for (i, rec) in calls.iter().enumerate() {
        log.about_to(&json!({"i": i}));
        let c = &rec["call"];
        let (old, req) = (c["old"].as_u64().unwrap() as usize, c["req"].as_u64().unwrap() as usize);
        let (exact, dir) = (c["exact"].as_bool().unwrap(), c["directed"].as_bool().unwrap());
        let r = if dir { grow_one::<petgraph::Directed>(old, req, exact) } else { grow_one::<petgraph::Undirected>(old, req, exact) };
        match r {
            Ok((new, v, found)) => {
                let arr: Vec<Value> = v.iter().map(|c| json!([c.0, c.1])).collect();
                let same = json!(arr) == rec["arr"] && json!(new) == rec["new"];
                // through the position function: (r,k) holds its identity iff r,k < old
                let mut pos_ok = true;
                for f in &found {
                    let (r, k, a, b) = (f[0].as_i64().unwrap(), f[1].as_i64().unwrap(), f[2].as_i64().unwrap(), f[3].as_i64().unwrap());
                    let want = if (r as usize) < old && (k as usize) < old { if dir || r >= k { (r, k) } else { (k, r) } } else { (-1, -1) };
                    pos_ok &= (a, b) == want;
                }
                log.ev(json!({"i": i, "call": c, "ok": same && pos_ok, "same": same, "pos_ok": pos_ok, "new": new, "arr": if same { json!([]) } else { json!(arr) }}));
            }
            Err(()) => log.ev(json!({"i": i, "call": c, "ok": false, "panic": true})),
        }
    }
}

// ------------------------------------------------------------------------------------------------
// CsrImpl.tla -> implementation: each exported behaviour (exhaustive small model with a scaled-down cutoff, and
// simulations with the real cutoff of 32) is replayed on the real Csr; the arrays of the model are exactly what
// neighbors_slice / edges_slice / edge_count expose, and every call's result is compared too.
fn csr_one<Ty: petgraph::EdgeType>(sc: &Value) -> Result<Vec<String>, ()> {
    use petgraph::csr::Csr;
    guard(|| {
        let mut diffs = vec![];
        let mut g: Csr<(), i64, Ty, u32> = Csr::new();
        for _ in 0..sc["n0"].as_u64().unwrap() {
            g.add_node(());
        }
        for (i, op) in sc["hist"].as_array().unwrap().iter().enumerate() {
            match op["op"].as_str().unwrap() {
                "add_node" => { g.add_node(()); }
                "clear_edges" => g.clear_edges(),
                _ => {
                    let (a, b, w) = (op["a"].as_u64().unwrap() as u32, op["b"].as_u64().unwrap() as u32, op["w"].as_i64().unwrap());
                    let r = match g.try_add_edge(a, b, w) { Ok(true) => "true", Ok(false) => "false", Err(_) => "err" };
                    if r != op["res"].as_str().unwrap() {
                        diffs.push(format!("call {} try_add_edge({},{}) returned {} but the model says {}", i, a, b, r, op["res"]));
                    }
                }
            }
        }
        let row: Vec<u64> = sc["row"].as_array().unwrap().iter().map(|x| x.as_u64().unwrap()).collect();
        let col: Vec<u64> = sc["column"].as_array().unwrap().iter().map(|x| x.as_u64().unwrap()).collect();
        let ew: Vec<i64> = sc["ew"].as_array().unwrap().iter().map(|x| x.as_i64().unwrap()).collect();
        if g.node_count() != row.len() - 1 { diffs.push(format!("node_count {} vs {}", g.node_count(), row.len() - 1)); }
        if g.edge_count() as u64 != sc["ec"].as_u64().unwrap() { diffs.push(format!("edge_count {} vs {}", g.edge_count(), sc["ec"])); }
        for a in 0..g.node_count().min(row.len() - 1) {
            let (s, e) = (row[a] as usize, row[a + 1] as usize);
            let ns: Vec<u64> = g.neighbors_slice(a as u32).iter().map(|&x| x as u64).collect();
            if ns != col[s..e] { diffs.push(format!("neighbors_slice({}) = {:?}, model row {:?}", a, ns, &col[s..e])); }
            let es: Vec<i64> = g.edges_slice(a as u32).to_vec();
            if es != ew[s..e] { diffs.push(format!("edges_slice({}) = {:?}, model {:?}", a, es, &ew[s..e])); }
            if g.out_degree(a as u32) != e - s { diffs.push(format!("out_degree({})", a)); }
            for b in 0..g.node_count() {
                let want = col[s..e].contains(&(b as u64));
                if g.contains_edge(a as u32, b as u32) != want { diffs.push(format!("contains_edge({},{}) = {}", a, b, !want)); }
            }
        }
        diffs
    })
}

pub fn csr_replay(scripts: &[Value], log: &mut Log) {
    for (i, sc) in scripts.iter().enumerate() {
        log.about_to(&json!({"i": i}));
        let r = if sc["directed"].as_bool().unwrap() { csr_one::<petgraph::Directed>(sc) } else { csr_one::<petgraph::Undirected>(sc) };
        match r {
            Ok(d) => log.ev(json!({"i": i, "ok": d.is_empty(), "diffs": d.into_iter().take(4).collect::<Vec<_>>()})),
            Err(()) => log.ev(json!({"i": i, "ok": false, "diffs": ["panic"]})),
        }
    }
}

// ------------------------------------------------------------------------------------------------
// GraphMapImpl.tla -> implementation: exported state histories replayed on the real GraphMap.  Verdicts: every call's
// result, the node set and the edge map.  Iteration orders (nodes, neighbors, all_edges) are compared as well but only
// reported: C03 does not promise them.
fn gm_one<Ty: petgraph::EdgeType>(sc: &Value) -> Result<(Vec<String>, bool), ()> {
    use petgraph::graphmap::GraphMap;
    guard(|| {
        let mut diffs = vec![];
        let mut g: GraphMap<u32, i64, Ty> = GraphMap::new();
        let show = |o: Option<i64>| o.map(|x| x.to_string()).unwrap_or("none".into());
        for (i, op) in sc["hist"].as_array().unwrap().iter().enumerate() {
            let (a, b, w) = (op["a"].as_u64().unwrap() as u32, op["b"].as_u64().unwrap() as u32, op["w"].as_i64().unwrap());
            let r: String = match op["op"].as_str().unwrap() {
                "add_node" => { g.add_node(a); "ok".into() }
                "add_edge" => show(g.add_edge(a, b, w)),
                "remove_edge" => show(g.remove_edge(a, b)),
                _ => g.remove_node(a).to_string(),
            };
            if r != op["res"].as_str().unwrap() {
                diffs.push(format!("call {} {}({},{}) returned {} but the model says {}", i, op["op"], a, b, r, op["res"]));
            }
        }
        let mnodes: Vec<u32> = sc["nodes"].as_array().unwrap().iter().map(|x| x.as_u64().unwrap() as u32).collect();
        let medges: Vec<(u32, u32, i64)> = sc["edges"].as_array().unwrap().iter().map(|t| (t[0].as_u64().unwrap() as u32, t[1].as_u64().unwrap() as u32, t[2].as_i64().unwrap())).collect();
        let rnodes: Vec<u32> = g.nodes().collect();
        let redges: Vec<(u32, u32, i64)> = g.all_edges().map(|(a, b, w)| (a, b, *w)).collect();
        let sorted = |mut v: Vec<u32>| { v.sort(); v };
        let canon = |v: &Vec<(u32, u32, i64)>| { let mut v: Vec<_> = v.iter().map(|&(a, b, w)| if Ty::is_directed() || a <= b { (a, b, w) } else { (b, a, w) }).collect(); v.sort(); v };
        if sorted(rnodes.clone()) != sorted(mnodes.clone()) { diffs.push(format!("node set {:?} vs model {:?}", rnodes, mnodes)); }
        if canon(&redges) != canon(&medges) { diffs.push(format!("edge map {:?} vs model {:?}", redges, medges)); }
        if g.node_count() != mnodes.len() || g.edge_count() != medges.len() { diffs.push("counts".into()); }
        // informational: iteration orders
        let mut same_order = rnodes == mnodes && redges.iter().map(|t| (t.0, t.1)).collect::<Vec<_>>() == medges.iter().map(|t| (t.0, t.1)).collect::<Vec<_>>();
        for (k, &n) in mnodes.iter().enumerate() {
            let adj: Vec<u32> = sc["adj"][k].as_array().unwrap().iter().filter(|e| !Ty::is_directed() || e[1].as_u64().unwrap() == 0).map(|e| e[0].as_u64().unwrap() as u32).collect();
            if g.contains_node(n) && g.neighbors(n).collect::<Vec<_>>() != adj { same_order = false; }
        }
        (diffs, same_order)
    })
}

pub fn gm_replay(scripts: &[Value], log: &mut Log) {
    for (i, sc) in scripts.iter().enumerate() {
        log.about_to(&json!({"i": i}));
        let r = if sc["directed"].as_bool().unwrap() { gm_one::<petgraph::Directed>(sc) } else { gm_one::<petgraph::Undirected>(sc) };
        match r {
            Ok((d, so)) => log.ev(json!({"i": i, "ok": d.is_empty(), "same_order": so, "diffs": d.into_iter().take(4).collect::<Vec<_>>()})),
            Err(()) => log.ev(json!({"i": i, "ok": false, "same_order": false, "diffs": ["panic"]})),
        }
    }
}

// ------------------------------------------------------------------------------------------------
// MatrixImpl.tla -> implementation: exported state histories replayed on the real MatrixGraph.  Which free id add_node
// hands out is not promised by C04 (the model's LIFO choice is compared and reported only; if the real graph chooses
// differently the rest of that history is skipped).  Verdicts: the live id set, has_edge for every pair, edge_count.
fn mxi_one<Ty: petgraph::EdgeType>(sc: &Value) -> Result<(Vec<String>, bool), ()> {
    use petgraph::matrix_graph::MatrixGraph;
    use petgraph::visit::IntoNodeIdentifiers;
    guard(|| {
        let mut diffs = vec![];
        let mut g: MatrixGraph<(), i64, std::collections::hash_map::RandomState, Ty, Option<i64>, u16> = MatrixGraph::with_capacity(0);
        let ix = |x: u64| petgraph::matrix_graph::NodeIndex::<u16>::new(x as usize);
        for (i, op) in sc["hist"].as_array().unwrap().iter().enumerate() {
            let (a, b, r) = (op["a"].as_u64().unwrap(), op["b"].as_u64().unwrap(), op["res"].as_i64().unwrap());
            match op["op"].as_str().unwrap() {
                "add_node" => {
                    let id = g.add_node(()).index() as i64;
                    if id != r {
                        // a different (but possibly legitimate) id: the model's history no longer applies
                        let live: Vec<usize> = g.node_identifiers().map(|x| x.index()).collect();
                        if live.iter().filter(|&&x| x as i64 == id).count() != 1 { diffs.push(format!("call {} add_node returned {} which is not a fresh live id", i, id)); }
                        return (diffs, false);
                    }
                }
                "update_edge" => {
                    let old = g.update_edge(ix(a), ix(b), i as i64 + 1);
                    if old.is_some() != (r == 1) { diffs.push(format!("call {} update_edge({},{}) previous weight {:?}, model says present={}", i, a, b, old, r == 1)); }
                }
                "remove_edge" => { g.remove_edge(ix(a), ix(b)); }
                "clear" => g.clear(),
                _ => { g.remove_node(ix(a)); }
            }
        }
        let live: Vec<u64> = sc["live"].as_array().unwrap().iter().map(|x| x.as_u64().unwrap()).collect();
        let mut real: Vec<u64> = g.node_identifiers().map(|x| x.index() as u64).collect();
        real.sort();
        if real != live { diffs.push(format!("live ids {:?}, model {:?}", real, live)); }
        if g.node_count() != live.len() { diffs.push(format!("node_count {} vs {}", g.node_count(), live.len())); }
        if g.edge_count() as u64 != sc["nb"].as_u64().unwrap() { diffs.push(format!("edge_count {} vs model {}", g.edge_count(), sc["nb"])); }
        let cells: Vec<(u64, u64)> = sc["cells"].as_array().unwrap().iter().map(|c| (c[0].as_u64().unwrap(), c[1].as_u64().unwrap())).collect();
        for &a in &live { for &b in &live {
            if !real.contains(&a) || !real.contains(&b) { continue; }
            let want = cells.contains(&(a, b)) || (!Ty::is_directed() && cells.contains(&(b, a)));
            if g.has_edge(ix(a), ix(b)) != want { diffs.push(format!("has_edge({},{}) = {}, model {}", a, b, !want, want)); }
        } }
        (diffs, true)
    })
}

pub fn mxi_replay(scripts: &[Value], log: &mut Log) {
    for (i, sc) in scripts.iter().enumerate() {
        log.about_to(&json!({"i": i}));
        let r = if sc["directed"].as_bool().unwrap() { mxi_one::<petgraph::Directed>(sc) } else { mxi_one::<petgraph::Undirected>(sc) };
        match r {
            Ok((d, followed)) => log.ev(json!({"i": i, "ok": d.is_empty(), "followed": followed, "diffs": d.into_iter().take(4).collect::<Vec<_>>()})),
            Err(()) => log.ev(json!({"i": i, "ok": false, "followed": true, "diffs": ["panic"]})),
        }
    }
}
