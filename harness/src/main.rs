mod common;
mod uf;
use common::*;

fn main() {
    let argv: Vec<String> = std::env::args().collect();
    let args = Args(argv.clone());
    silence_panics();
    let cmd = argv.get(1).map(|s| s.as_str()).unwrap_or("");
    let seed = args.num("seed", 1);
    let out = args.str("out", "-");
    match cmd {
        // ---- C19
        "uf-random" => {
            let s = uf::gen_random(seed, args.num("segments", 40) as usize, args.num("len", 60) as usize);
            uf::exec_script(&s, &mut Log::to_path(&out));
        }
        "uf-exhaustive" => {
            let s = uf::gen_exhaustive(args.num("n", 3) as usize, args.num("depth", 2) as usize, &args.str("ix", "u8"));
            uf::exec_script(&s, &mut Log::to_path(&out));
        }
        "uf-exec" => {
            let s = read_ndjson(&args.str("in", ""));
            uf::exec_script(&s, &mut Log::to_path(&out));
        }
        _ => {
            eprintln!("usage: vh <cmd> [--seed N] [--out FILE] ...");
            std::process::exit(2);
        }
    }
}
