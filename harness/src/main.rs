mod codec;
mod common;
mod algos;
mod enc;
mod ix;
mod mg;
mod sg;
mod uf;
mod views;
use common::*;

fn main() {
    let argv: Vec<String> = std::env::args().collect();
    let args = Args(argv.clone());
    silence_panics();
    let cmd = argv.get(1).map(|s| s.as_str()).unwrap_or("");
    let seed = args.num("seed", 1);
    let out = args.str("out", "-");
    match cmd {
        // ---- C19
        "uf-random" => {
            let s = uf::gen_random(seed, args.num("segments", 40) as usize, args.num("len", 60) as usize);
            uf::exec_script(&s, &mut Log::to_path(&out));
        }
        "uf-exhaustive" => {
            let s = uf::gen_exhaustive(args.num("n", 3) as usize, args.num("depth", 2) as usize, &args.str("ix", "u8"));
            uf::exec_script(&s, &mut Log::to_path(&out));
        }
        "uf-exec" => {
            let s = read_ndjson(&args.str("in", ""));
            uf::exec_script(&s, &mut Log::to_path(&out));
        }
        // ---- C01 / C02
        "mg-random" => {
            let mut log = Log::to_path(&out);
            mg::gen_random(seed, args.num("segments", 30) as usize, args.num("len", 80) as usize, args.flag("stable"), &mut log);
        }
        // ---- R3 oracles: algorithm sweeps
        "algo-sweep" => {
            let mut log = Log::to_path(&out);
            let mut o = algos::Out { log: &mut log, matrix: Default::default() };
            algos::sweep(&args.str("prop", "C09"), seed, args.num("exh", 3) as usize, args.num("random", 100) as usize, args.num("nmax", 6) as usize, &mut o);
            let m = serde_json::to_string(&o.matrix).unwrap();
            eprintln!("MATRIX {}", m);
        }
        "iso-sweep" => {
            let mut log = Log::to_path(&out);
            let mut o = algos::Out { log: &mut log, matrix: Default::default() };
            algos::c13_sweep(seed, args.num("pairs", 300) as usize, &mut o);
            eprintln!("MATRIX {}", serde_json::to_string(&o.matrix).unwrap());
        }
        "codec-sweep" => {
            let mut log = Log::to_path(&out);
            let mut o = algos::Out { log: &mut log, matrix: Default::default() };
            codec::c18_sweep(seed, args.num("small", 40) as usize, args.num("big", 14) as usize, args.num("dots", 12) as usize, &mut o);
            eprintln!("MATRIX {}", serde_json::to_string(&o.matrix).unwrap());
        }
        "algo-replay" => {
            let mut log = Log::to_path(&out);
            let mut o = algos::Out { log: &mut log, matrix: Default::default() };
            let recs = read_ndjson(&args.str("in", ""));
            algos::replay(&args.str("prop", "C09"), seed, &recs, &mut o);
        }
        "sg-random" => {
            let mut log = Log::to_path(&out);
            let (s, l) = (args.num("segments", 30) as usize, args.num("len", 80) as usize);
            match args.str("prop", "C05").as_str() {
                "C03" => sg::gen_c03(seed, s, l, &mut log),
                "C17" => sg::gen_c17_map(seed, s, l, &mut log),
                "C04" => sg::gen_c04(seed, s, l, &mut log),
                _ => sg::gen_c05(seed, s, l, &mut log),
            }
        }
        "csr-replay" => {
            let mut log = Log::to_path(&out);
            let scripts = read_ndjson(&args.str("in", ""));
            sg::csr_replay(&scripts, &mut log);
        }
        "gm-replay" => {
            let mut log = Log::to_path(&out);
            let scripts = read_ndjson(&args.str("in", ""));
            sg::gm_replay(&scripts, &mut log);
        }
        "mxi-replay" => {
            let mut log = Log::to_path(&out);
            let scripts = read_ndjson(&args.str("in", ""));
            sg::mxi_replay(&scripts, &mut log);
        }
        "mx-grow" => {
            let mut log = Log::to_path(&out);
            let calls = read_ndjson(&args.str("in", ""));
            sg::mx_grow(&calls, &mut log);
        }
        "mg-scenarios" => {
            let mut log = Log::to_path(&out);
            mg::gen_scenarios(seed, args.num("segments", 60) as usize, args.flag("stable"), &mut log);
        }
        "mg-accover" => {
            let mut log = Log::to_path(&out);
            let scripts = read_ndjson(&args.str("in", ""));
            mg::accover_replay(&scripts, args.num("stride", 1) as usize, args.num("offset", 0) as usize, &mut log, seed);
        }
        "mg-cover" => {
            let mut log = Log::to_path(&out);
            let scripts = read_ndjson(&args.str("in", ""));
            mg::cover_replay(&scripts, args.num("stride", 1) as usize, args.num("offset", 0) as usize, &mut log, seed);
        }
        "mg-serde" => {
            let mut log = Log::to_path(&out);
            mg::gen_serde(seed, args.num("segments", 40) as usize, args.num("len", 50) as usize, &mut log);
        }
        "mg-acyclic" => {
            let mut log = Log::to_path(&out);
            mg::gen_acyclic(seed, args.num("segments", 40) as usize, args.num("len", 60) as usize, &mut log);
        }
        "mg-u8limit" => {
            let mut log = Log::to_path(&out);
            for d in [true, false] {
                mg::gen_u8_limit(seed, args.flag("stable"), d, &mut log);
            }
        }
        "mg-exec" => {
            let s = read_ndjson(&args.str("in", ""));
            mg::exec_script(&s, &mut Log::to_path(&out), seed);
        }
        _ => {
            eprintln!("usage: vh <cmd> [--seed N] [--out FILE] ...");
            std::process::exit(2);
        }
    }
}
